"""M-PORT: histories of line assignments and write-backs through items/ports/sport on Port (C08)."""

from __future__ import annotations

from cisco_acl import Port, PortName
from cisco_acl import helpers as lib_h

from .core import Machine, Streams, Violation
from .seams import SimIds, SimLog

MAXP = 65535
BOUNDARY = [1, 2, 3, 4, 5, 65531, 65532, 65533, 65534, 65535]


def _names(proto, plat, version) -> dict:
    """The harness's own copy of the library's name table (see model.port_table)."""
    from .model import port_table
    pr = 6 if str(proto) in ("tcp", "6") else 17
    return port_table(plat, version or "0", pr)


def denote(op: str, operands) -> frozenset:
    if op == "eq":
        return frozenset(operands)
    if op == "neq":
        return frozenset(range(1, MAXP + 1)) - frozenset(operands)
    if op == "lt":
        return frozenset(range(1, operands[0]))
    if op == "gt":
        return frozenset(range(operands[0] + 1, MAXP + 1))
    if op == "range":
        return frozenset(range(min(operands), max(operands) + 1))
    raise ValueError(op)


def encode(ports) -> str:
    """Independent encoder of the compact range string."""
    ps = sorted(set(ports))
    out = []
    i = 0
    while i < len(ps):
        j = i
        while j + 1 < len(ps) and ps[j + 1] == ps[j] + 1:
            j += 1
        out.append(str(ps[i]) if i == j else f"{ps[i]}-{ps[j]}")
        i = j + 1
    return ",".join(out)


def decode(sport: str) -> frozenset:
    """Independent decoder of the compact range string."""
    res = set()
    if not sport:
        return frozenset()
    for part in sport.split(","):
        if "-" in part:
            a, b = part.split("-")
            res.update(range(int(a), int(b) + 1))
        else:
            res.add(int(part))
    return frozenset(res)


class PortMachine(Machine):
    name = "M-PORT"
    PROPS = ("C08",)
    QUICK_RUNS = {"C08": 1200}
    THOROUGH_BUDGET_S = 600
    RULE = (
        "one evaluation = one seeded history (<= 30 ops) on <= 3 live Port objects: line "
        "assignments (5 operators, boundary-biased operands over 1..65535, names and numbers, "
        "tcp/udp, ios/nxos/asa, version tables) interleaved with write-backs through "
        "items/ports/sport, protocol/platform/port_nr changes, copy and data() rebuild, plus "
        "range-string codec round trips on generated subsets; distinct = distinct abstract end "
        "state (operator, operands, protocol, platform, port_nr per live object); non-trivial = at "
        "least two write-backs were applied to an object after a line assignment"
    )
    COMPONENTS = {
        "real": ["cisco_acl.port", "cisco_acl.helpers (ports_to_string/string_to_ports)",
                 "cisco_acl.port_name (tables trusted as data)", "cisco_acl.base"],
        "stub": ["uuid1 -> SimIds (logical counter)"],
    }
    ASSUMPTIONS = [
        "port name tables of cisco_acl.port_name are trusted data (their correctness is C09)",
        "operands are generated within 1..65535 as the quantifier says (0 and >65535 not generated)",
        "operand tuples with duplicates: only meaning (not text) invariance is demanded on "
        "write-back, because the views cannot carry multiplicity",
        "no seam is touched by Port: this is the degenerate single-client, fault-free simulation; "
        "the only faults are library-raised aborts (multi-port eq/neq on nxos/asa)",
    ]

    def __init__(self, prop, tier="quick"):
        super().__init__(prop, tier)
        self.ids = SimIds()
        self.log = SimLog()
        self.slots = []
        self.wb_after_set = 0

    def draw_config(self, st: Streams, idx: int) -> dict:
        w = st.w
        return dict(
            steps=w.randint(2, 60 if self.tier == "thorough" else 30),
            names=w.random() < 0.4,
            neq_wb=w.random() < (0.3 if self.tier == "thorough" else 0.15),
            multi=w.random() < 0.6,
            dups=w.random() < 0.1,
            empty=w.random() < 0.3,
            bad=w.random() < 0.15,
            platforms=w.choice([["ios"], ["ios"], ["ios", "nxos"], ["ios", "nxos", "asa"]]),
            log_level=w.choice(["DEBUG", "WARNING"]),
        )

    def reset(self, cfg):
        self.cfg = cfg
        self.ids.install()
        self.log.install(cfg.get("log_level", "DEBUG"))
        self.slots = []

    def teardown(self):
        self.slots = []
        self.log.uninstall()
        self.ids.uninstall()

    def nontrivial(self):
        return self.wb_after_set >= 2

    def state_hash(self):
        return "|".join(
            f"{s['op']}:{','.join(map(str, s['operands']))}:{s['proto']}:{s['plat']}:{int(s['nr'])}"
            for s in self.slots
        )

    # ------------------------------------------------------------- generation
    def _operand(self, w):
        r = w.random()
        if r < 0.45:
            return w.choice(BOUNDARY)
        if r < 0.7:
            return w.choice([20, 21, 22, 23, 25, 53, 80, 123, 161, 179, 443, 514])
        return w.randint(1, MAXP)

    def _gen_line(self, w, plat, version, proto):
        cfg = self.cfg
        op = w.choice(["eq", "eq", "neq", "lt", "gt", "range", "range"])
        if op in ("eq", "neq"):
            n = 1
            if plat == "ios" and cfg["multi"] and w.random() < 0.6:
                n = w.randint(2, 10 if op == "eq" else 3)
            operands = []
            while len(operands) < n:
                x = self._operand(w)
                if x in operands and not cfg["dups"]:
                    continue
                operands.append(x)
            if cfg["dups"] and plat == "ios" and w.random() < 0.5:
                # a repeated operand next to a gap: [a, a, a+2]
                a = self._operand(w)
                operands = [a, a, min(MAXP, a + 2)]
            elif w.random() < 0.3 and n > 1:
                # adjacent values
                base = self._operand(w)
                operands = [min(MAXP, base + i) for i in range(n)]
                if len(set(operands)) != n:
                    operands = list(range(1, n + 1))
        elif op in ("lt", "gt"):
            x = self._operand(w)
            if not cfg["empty"]:
                if op == "lt" and x == 1:
                    x = 2
                if op == "gt" and x == MAXP:
                    x = MAXP - 1
            operands = [x]
        else:
            a, b = self._operand(w), self._operand(w)
            if w.random() < 0.2:
                b = a
            operands = [a, b]
        toks = []
        names = {}
        if cfg["names"]:
            names = {v: k for k, v in _names(proto, plat, version).items()}
        for x in operands:
            if x in names and w.random() < 0.7:
                toks.append(names[x])
            else:
                toks.append(str(x))
        sep = w.choice([" ", " ", "  "])
        return sep.join([op, *toks])

    def next_op(self, st: Streams) -> dict:
        w, s = st.w, st.s
        cfg = self.cfg
        if not self.slots or (len(self.slots) < 3 and s.random() < 0.1):
            plat = w.choice(cfg["platforms"])
            version = w.choice(["", "", "15.2", "16.9", "9.3", "17.3"])
            proto = w.choice(["tcp", "udp"])
            return dict(op="port_new", line=self._gen_line(w, plat, version, proto), proto=proto,
                        platform=plat, version=version, port_nr=w.random() < 0.3)
        t = s.randrange(len(self.slots))
        slot = self.slots[t]
        r = s.random()
        if r < 0.03:
            return dict(op="port_clear", t=t, how=s.choice(["line", "line", "protocol"]))
        if r < 0.045:
            # a caller edits the name table it got from the public PortName accessor
            return dict(op="port_names_scribble", proto=s.choice(["tcp", "udp"]),
                        platform=s.choice(["ios", "nxos", "asa"]))
        if cfg["bad"] and r < 0.06:
            # another client of the same process tries an expression outside the domain
            # (operands beyond 1..65535); whatever that gives, live expressions are not its business
            ops_ = s.choice([[80, 70000], [179, 65536], [22, 0, 65536], [0, 80], [70000],
                             [self._operand(w), 65536 + self._operand(w)]])
            return dict(op="port_foreign_bad", proto=s.choice(["tcp", "udp"]),
                        line=" ".join([s.choice(["neq", "neq", "eq", "gt", "range"]),
                                       *map(str, ops_)]))
        if r < 0.07 and len(slot["operands"]) >= 1:
            # same operator, other operands with the same digit string ("neq 1 2" / "neq 12")
            digits = "".join(str(o) for o in slot["operands"])
            opn = slot["op"]
            cand = None
            if len(slot["operands"]) > 1 and opn in ("eq", "neq") and int(digits) <= MAXP:
                cand = [int(digits)]
            elif len(digits) >= 2 and opn in ("eq", "neq") and slot["plat"] == "ios":
                k_ = s.randint(1, len(digits) - 1)
                a_, b_ = int(digits[:k_]), int(digits[k_:])
                if a_ >= 1 and b_ >= 1 and not digits[k_:].startswith("0"):
                    cand = [a_, b_]
            elif opn == "range" and len(digits) >= 3:
                k_ = s.randint(1, len(digits) - 1)
                a_, b_ = int(digits[:k_]), int(digits[k_:])
                if 1 <= a_ <= MAXP and 1 <= b_ <= MAXP and not digits[k_:].startswith("0"):
                    cand = [a_, b_]
            if cand:
                return dict(op="port_set_line", t=t, line=" ".join([opn, *map(str, cand)]))
        if r < 0.22:
            if cfg["bad"] and w.random() < 0.3:
                line = w.choice(["eq", "lt 1 2", "range 5", "range 1 2 3", "gt", "xx 5",
                                 "eq nosuchname", "eq 1 2 3 4" if slot["plat"] != "ios" else "lt"])
            else:
                line = self._gen_line(w, slot["plat"], slot["version"], slot["proto"])
            return dict(op="port_set_line", t=t, line=line)
        if r < 0.27 and slot["op"]:
            # other operands for the same operator through the items view, in any order
            opn = slot["op"]
            n_ = 1 if opn in ("lt", "gt") else 2 if opn == "range" else \
                (s.randint(1, 5) if slot["plat"] == "ios" else 1)
            vals = [self._operand(w) for _ in range(n_)]
            if opn == "range" and s.random() < 0.5:
                vals.sort(reverse=True)
            if opn == "range" and s.random() < 0.15:
                vals[1] = vals[0]
            if opn == "lt" and vals[0] == 1 or opn == "gt" and vals[0] == MAXP:
                vals = [2]
            return dict(op="port_set_items", t=t, vals=vals,
                        as_=s.choice(["list", "list", "tuple", "str", "live", "live"]))
        if r < 0.40:
            return dict(op="port_wb_items", t=t, perm=s.choice(["same", "same", "tuple", "copy"]))
        if r < 0.62:
            if slot["op"] == "neq" and not cfg["neq_wb"]:
                return dict(op="port_wb_sport_decode", t=t)
            return dict(op="port_wb_ports", t=t, as_=s.choice(["list", "list", "tuple", "copy"]))
        if r < 0.78:
            if slot["op"] == "neq" and not cfg["neq_wb"]:
                return dict(op="port_wb_sport_decode", t=t)
            return dict(op="port_wb_sport", t=t)
        if r < 0.83:
            return dict(op="port_set_proto", t=t, v=s.choice(["tcp", "udp", 6, 17, "6", "17"]))
        if r < 0.88:
            return dict(op="port_set_platform", t=t, p=s.choice(cfg["platforms"]))
        if r < 0.92:
            return dict(op="port_set_port_nr", t=t, b=s.random() < 0.5)
        if r < 0.94:
            return dict(op=s.choice(["port_copy", "port_rebuild"]), t=t)
        if r < 0.96 and len(self.slots) > 1:
            return dict(op="port_xfer", t=t, u=s.randrange(len(self.slots)))
        # codec round trip on a generated subset
        n = s.choice([0, 1, 2, 5, 30])
        ports = sorted({self._operand(w) for _ in range(n)})
        if s.random() < 0.5 and ports:
            a = ports[0]
            ports = sorted(set(ports) | set(range(a, min(MAXP, a + s.randint(1, 40)) + 1)))
        return dict(op="codec", ports=ports)

    # ------------------------------------------------------------- oracle
    def _fail(self, oracle, msg, **disc):
        raise Violation("C08", oracle, msg, disc)

    @staticmethod
    def _read_line(line, slot):
        """Independent reading of rendered port text -> (operator, operands)."""
        toks = line.split()
        if not toks:
            return None
        names = _names(slot["proto"], slot["plat"], slot["version"])
        vals = []
        for tok in toks[1:]:
            if tok.isdigit():
                vals.append(int(tok))
            elif tok in names:
                vals.append(names[tok])
            else:
                raise ValueError(f"token {tok!r} is not a port of {slot['plat']}/{slot['proto']}")
        return toks[0], vals

    def _check(self, p: Port, slot, where):
        d = denote(slot["op"], slot["operands"])
        ports = p.ports
        if set(ports) != d:
            extra = sorted(set(ports) - d)[:5]
            missing = sorted(d - set(ports))[:5]
            self._fail("C08.denote", f"{where}: ports of {slot['op']} {slot['operands']} wrong "
                                     f"(extra {extra} missing {missing})", operator=slot["op"])
        sport = p.sport
        try:
            dec = decode(sport)
        except ValueError:
            self._fail("C08.sport-format", f"{where}: sport {sport[:60]!r} is not a range string")
        if dec != d:
            self._fail("C08.sport-encode", f"{where}: sport {sport[:80]!r} does not encode the "
                                           f"port set of {p.line!r}", operator=slot["op"])
        if len(ports) == len(set(ports)) and sport != encode(d):
            self._fail("C08.sport-compact", f"{where}: sport {sport[:80]!r} is not the compact "
                                            f"encoding {encode(d)[:80]!r}")
        back = lib_h.string_to_ports(sport)
        if set(back) != d or len(back) != len(set(back)):
            self._fail("C08.sport-decode", f"{where}: string_to_ports(sport) != port set of "
                                           f"{p.line!r}")
        # text
        try:
            rd = self._read_line(p.line, slot)
        except ValueError as ex:
            self._fail("C08.text", f"{where}: rendered {p.line!r}: {ex}")
        if rd is None:
            self._fail("C08.text", f"{where}: rendered empty text for {slot['op']} "
                                   f"{slot['operands']}")
        if rd[0] != slot["op"] or denote(rd[0], rd[1]) != d:
            self._fail("C08.text", f"{where}: rendered {p.line!r} does not denote "
                                   f"{slot['op']} {slot['operands']}", operator=slot["op"])
        if slot["nr"] and not all(t.isdigit() for t in p.line.split()[1:]):
            self._fail("C08.text-nr", f"{where}: port_nr set but {p.line!r} has names")
        if p.operator != slot["op"]:
            self._fail("C08.operator", f"{where}: operator {p.operator!r} != {slot['op']!r}")

    @staticmethod
    def _observe(p: Port):
        return (p.line, tuple(p.items), p.operator, p.sport, len(p.ports), hash(tuple(p.ports)),
                p.protocol, p.platform, p.port_nr)

    def _build(self, slot) -> Port:
        toks = [slot["op"], *map(str, slot["operands"])]
        return Port(" ".join(toks), protocol=slot["proto"], platform=slot["plat"],
                    version=slot["version"], port_nr=slot["nr"])

    def _abort(self, slot, pre, opname):
        """After a library-raised error the write may or may not have taken effect, but the
        object must stay a port expression: whatever text it reports, its port list, range
        string and operator must be those of that text (the denotation clause of C08 holds for
        the object as it is, not only for objects that were never refused a write)."""
        p = slot["obj"]
        if self._observe(p) == pre:
            self.probes["abort_atomic"] += 1
            return
        self.probes[f"torn_after_abort[{opname}]"] += 1
        now = None
        try:
            now = self._parse_gen_line(p.line, p.protocol or slot["proto"], p.platform,
                                       slot["version"])
        except Exception:  # noqa
            now = None
        if now is not None and p.platform in ("ios", "nxos", "asa"):
            probe = dict(slot, op=now[0], operands=now[1], plat=p.platform,
                         proto=p.protocol or slot["proto"], nr=p.port_nr)
            try:
                self._check(p, probe, f"after rejected {opname}")
            except Violation as v:
                raise Violation("C08", "C08.rejected-write-inconsistent",
                                f"after a rejected {opname} the object reports {p.line!r} but "
                                f"its views disagree: {v.msg}", {"opname": opname})
            # consistent: the history goes on with this very object (whatever the refused write
            # left behind stays reachable), the model follows what the object reports
            slot["op"], slot["operands"] = now
            slot["plat"], slot["proto"], slot["nr"] = p.platform, probe["proto"], p.port_nr
            self.probes["kept_after_refused_write"] += 1
            return
        slot["obj"] = self._build(slot)

    # ------------------------------------------------------------- apply
    def _slot(self, t):
        if not self.slots:
            return None
        return self.slots[t % len(self.slots)]

    def apply(self, op: dict) -> str:
        return getattr(self, "_op_" + op["op"])(op)

    @staticmethod
    def _parse_gen_line(line, proto, plat, version):
        """Independent reading of a generated line; None if outside the grammar."""
        toks = line.split()
        if not toks or toks[0] not in ("eq", "neq", "lt", "gt", "range"):
            return None
        names = _names(proto, plat, version)
        vals = []
        for tok in toks[1:]:
            if tok.isdigit():
                vals.append(int(tok))
            elif tok in names:
                vals.append(names[tok])
            else:
                return None
        o = toks[0]
        if not vals:
            return None
        if o in ("lt", "gt") and len(vals) != 1:
            return None
        if o == "range" and len(vals) != 2:
            return None
        if o in ("eq", "neq") and plat in ("asa", "nxos") and len(vals) != 1:
            return None
        if any(not 1 <= v <= MAXP for v in vals):
            return None
        return o, vals

    def _op_port_new(self, op):
        parsed = self._parse_gen_line(op["line"], op["proto"], op["platform"], op["version"])
        kwargs = dict(protocol=op["proto"], platform=op["platform"], version=op["version"],
                      port_nr=op["port_nr"])
        try:
            p = Port(op["line"], **kwargs)
        except (ValueError, TypeError) as ex:
            if parsed is not None:
                self._fail("C08.valid-rejected", f"Port({op['line']!r}, {kwargs}) raised "
                                                 f"{type(ex).__name__}")
            return type(ex).__name__
        if parsed is None:
            return "accepted-outside-grammar"  # not judged (C01/C20 territory)
        slot = dict(obj=p, op=parsed[0], operands=parsed[1], proto=op["proto"],
                    plat=op["platform"], version=op["version"], nr=bool(op["port_nr"]), wb=0)
        if len(self.slots) < 3:
            self.slots.append(slot)
        else:
            self.slots[0] = slot
        if not denote(*parsed):
            self.probes["empty_denotation"] += 1
        self._check(p, slot, f"after Port({op['line']!r})")
        return "ok"

    def _op_port_set_line(self, op):
        slot = self._slot(op["t"])
        if slot is None:
            return "noop"
        p = slot["obj"]
        parsed = self._parse_gen_line(op["line"], slot["proto"], slot["plat"], slot["version"])
        pre = self._observe(p)
        try:
            p.line = op["line"]
        except (ValueError, TypeError) as ex:
            if parsed is not None:
                self._fail("C08.valid-rejected", f"p.line={op['line']!r} raised "
                                                 f"{type(ex).__name__} on {slot['plat']}")
            self._abort(slot, pre, "set_line")
            self._check(slot["obj"], slot, "after rejected set_line")
            return type(ex).__name__
        if parsed is None:
            # accepted something outside my grammar: rebuild from the model, not judged
            slot["obj"] = self._build(slot)
            return "accepted-outside-grammar"
        slot["op"], slot["operands"] = parsed
        slot["wb"] = 0
        if not denote(*parsed):
            self.probes["empty_denotation"] += 1
        self._check(p, slot, f"after line={op['line']!r}")
        return "ok"

    def _writeback(self, slot, view, fn):
        p = slot["obj"]
        pre = self._observe(p)
        dups = len(set(slot["operands"])) != len(slot["operands"])
        try:
            fn(p)
        except Exception as ex:  # the statement promises meaning and text unchanged
            self._fail("C08.writeback-raises", f"write-back through {view} of {pre[0]!r} raised "
                                               f"{type(ex).__name__}: {ex}",
                       view=view, operator=slot["op"], empty=not denote(slot["op"],
                                                                         slot["operands"]))
        post = self._observe(p)
        if dups:
            self.probes["wb_with_dup_operands"] += 1
        elif post != pre:
            self._fail("C08.writeback-changed", f"write-back through {view} changed "
                                                f"{pre[0]!r} -> {post[0]!r} (sport {pre[3][:40]!r}"
                                                f" -> {post[3][:40]!r})",
                       view=view, operator=slot["op"])
        slot["wb"] += 1
        self.wb_after_set += 1
        self.probes[f"wb_{view}[{slot['op']}]"] += 1
        self._check(p, slot, f"after write-back through {view}")
        return "ok"

    def _op_port_wb_items(self, op):
        slot = self._slot(op["t"])
        if slot is None:
            return "noop"
        perm = op["perm"]

        def fn(p):
            items = p.items  # the very object the view hands out: "its own items"
            if perm == "tuple":
                items = tuple(items)
            elif perm == "copy":
                items = list(items)
            p.items = items

        return self._writeback(slot, "items", fn)

    def _op_port_wb_ports(self, op):
        slot = self._slot(op["t"])
        if slot is None:
            return "noop"
        if slot["op"] == "neq":
            self.probes["neq_wb_ports"] += 1
        as_ = op["as_"]

        def fn(p):
            ports = p.ports  # the very object the view hands out
            if as_ == "tuple":
                ports = tuple(ports)
            elif as_ == "copy":
                ports = list(ports)
            p.ports = ports

        return self._writeback(slot, f"ports:{as_}", fn)

    def _op_port_wb_sport(self, op):
        slot = self._slot(op["t"])
        if slot is None:
            return "noop"

        def fn(p):
            p.sport = p.sport

        return self._writeback(slot, "sport", fn)

    def _op_port_wb_sport_decode(self, op):
        """Cheap stand-in when neq write-back is not scheduled: codec check only."""
        slot = self._slot(op["t"])
        if slot is None:
            return "noop"
        self._check(slot["obj"], slot, "codec check")
        return "ok"

    def _op_port_set_proto(self, op):
        slot = self._slot(op["t"])
        if slot is None:
            return "noop"
        p = slot["obj"]
        p.protocol = op["v"]
        slot["proto"] = {"6": "tcp", "17": "udp"}.get(str(op["v"]), str(op["v"]))
        if p.protocol != slot["proto"]:
            self._fail("C08.protocol", f"protocol={op['v']!r} gave {p.protocol!r}")
        self._check(p, slot, f"after protocol={op['v']!r}")
        return "ok"

    def _op_port_set_platform(self, op):
        slot = self._slot(op["t"])
        if slot is None:
            return "noop"
        p = slot["obj"]
        plat = op["p"]
        multi = slot["op"] in ("eq", "neq") and len(slot["operands"]) > 1
        pre = self._observe(p)
        try:
            p.platform = plat
        except ValueError:
            if not (multi and plat in ("nxos", "asa")):
                self._fail("C08.platform-rejected", f"platform={plat} rejected for {pre[0]!r}")
            self.faults["abort_multiport_platform"] += 1
            self._abort(slot, pre, "set_platform")
            return "ValueError"
        if multi and plat in ("nxos", "asa"):
            self._fail("C08.platform-accepted", f"multi-port {pre[0]!r} accepted on {plat}")
        slot["plat"] = plat
        self._check(p, slot, f"after platform={plat}")
        return "ok"

    def _op_port_set_port_nr(self, op):
        slot = self._slot(op["t"])
        if slot is None:
            return "noop"
        slot["obj"].port_nr = op["b"]
        slot["nr"] = bool(op["b"])
        self._check(slot["obj"], slot, f"after port_nr={op['b']}")
        return "ok"

    def _op_port_copy(self, op):
        slot = self._slot(op["t"])
        if slot is None:
            return "noop"
        c = slot["obj"].copy()
        self._check(c, slot, "copy()")
        if self._observe(c) != self._observe(slot["obj"]):
            self._fail("C08.copy", "copy() differs from source")
        slot["obj"] = c
        return "ok"

    def _op_port_names_scribble(self, op):
        """A caller merges the name tables of two platforms in the dict that the public accessor
        PortName.names() returned (and empties the dict returned by ports()): the dicts are the
        caller's; every live expression still spells and reads its own platform's names."""
        others = [p_ for p_ in ("ios", "nxos", "asa") if p_ != op["platform"]]
        try:
            d = PortName(protocol=op["proto"], platform=op["platform"]).names()
            for o in others:
                d.update(PortName(protocol=op["proto"], platform=o).names())
            d["bogus-name"] = 7
            PortName(protocol=op["proto"], platform=op["platform"]).ports().clear()
        except Exception:  # noqa
            return "noop"
        self.faults["name_table_scribbled"] += 1
        for slot in self.slots:
            fresh = self._build(slot)
            self._check(fresh, slot, "new object after the returned name table was edited")
            self._check(slot["obj"], slot, "live object after the returned name table was edited")
        return "ok"

    def _op_port_foreign_bad(self, op):
        """A throw-away expression with operands outside 1..65535, built and dropped by another
        client.  Its own outcome is not judged (C01/C20 territory); every live expression must
        still denote what it denoted."""
        try:
            q = Port(op["line"], protocol=op["proto"], platform="ios")
            _ = (q.ports, q.sport)
            self.probes["foreign_bad_accepted"] += 1
        except Exception as ex:  # noqa
            self.probes[f"foreign_bad_raised[{type(ex).__name__}]"] += 1
        self.faults["foreign_out_of_domain_expression"] += 1
        for slot in self.slots:
            fresh = self._build(slot)
            self._check(fresh, slot, f"new object after a foreign {op['line']!r}")
            self._check(slot["obj"], slot, f"live object after a foreign {op['line']!r}")
        return "ok"

    def _op_port_set_items(self, op):
        """New operands for the current operator through the items view (not a write-back): the
        denotation clause holds for the expression however it was given its operands - `range`
        regardless of operand order."""
        slot = self._slot(op["t"])
        if slot is None or not slot["op"]:
            return "noop"
        p = slot["obj"]
        vals = list(op["vals"])
        if slot["plat"] != "ios" and slot["op"] in ("eq", "neq") and len(vals) != 1:
            return "noop"
        if slot["op"] in ("lt", "gt") and len(vals) != 1 or slot["op"] == "range" \
                and len(vals) != 2:
            return "noop"
        if not all(isinstance(v, int) and 1 <= v <= MAXP for v in vals):
            return "noop"
        if slot["op"] in ("eq", "neq"):
            vals = list(dict.fromkeys(vals))  # repeated operands: see the `dups` configuration
        if op.get("as_") == "live":
            # the usual way to change operands: take the list the view returns, edit it, assign it
            arg = p.items
            arg[:] = vals
            self.probes["items_edited_in_place_and_assigned"] += 1
        else:
            arg = {"list": list(vals), "tuple": tuple(vals), "str": [str(v) for v in vals]}[
                op.get("as_", "list")]
        pre = self._observe(p)
        try:
            p.items = arg
        except (ValueError, TypeError) as ex:
            self._fail("C08.valid-rejected", f"p.items={arg!r} on {pre[0]!r} raised "
                                             f"{type(ex).__name__}: {ex}")
        slot["operands"] = list(vals)
        slot["wb"] = 0
        self.probes["items_assigned"] += 1
        if vals != sorted(vals):
            self.probes["items_assigned_unsorted"] += 1
        self._check(p, slot, f"after items={arg!r}")
        return "ok"

    def _op_port_xfer(self, op):
        """Assign one expression's items to another live expression: the giver must not change
        (its denotation clause keeps holding), the taker gets the giver's operands."""
        src, dst = self._slot(op["u"]), self._slot(op["t"])
        if src is None or dst is None or src is dst:
            return "noop"
        if dst["plat"] != "ios" and dst["op"] in ("eq", "neq") and len(src["operands"]) > 1:
            return "noop"
        if dst["op"] in ("lt", "gt") and len(src["operands"]) != 1:
            return "noop"
        if dst["op"] == "range" and len(src["operands"]) != 2:
            return "noop"
        pre = self._observe(src["obj"])
        try:
            dst["obj"].items = src["obj"].items
        except (ValueError, TypeError):
            dst["obj"] = self._build(dst)
            return "rejected"
        dst["operands"] = sorted(src["operands"])
        if self._observe(src["obj"]) != pre:
            self._fail("C08.xfer-changed-source", f"assigning a.items = b.items changed b: "
                                                  f"{pre[0]!r} -> {src['obj'].line!r}")
        self._check(src["obj"], src, "giver after items transfer")
        self._check(dst["obj"], dst, "taker after items transfer")
        return "ok"

    def _op_port_clear(self, op):
        """Empty the expression (no port restriction): every view must be empty; a later line
        assignment starts from a clean object."""
        slot = self._slot(op["t"])
        if slot is None:
            return "noop"
        p = slot["obj"]
        _ = p.sport, p.data()  # views are read before the change, as callers do
        if op["how"] == "line":
            p.line = ""
        else:
            p.protocol = "ip"
        got = (p.line, list(p.ports), p.sport, p.data()["sport"], list(p.data()["ports"]))
        if op["how"] == "line" and (p.operator or p.items):
            self._fail("C08.clear", f"after line='' operator={p.operator!r} items={p.items}")
        if got != ("", [], "", "", []) and op["how"] == "line":
            self._fail("C08.clear", f"emptied expression still shows line/ports/sport = {got}")
        if decode(p.sport) != frozenset(p.ports) or p.data()["sport"] != p.sport:
            self._fail("C08.clear", f"after emptying via {op['how']}: sport {p.sport!r} does not "
                                    f"encode ports {list(p.ports)[:5]}")
        if op["how"] == "protocol" and (p.line != "" or p.sport != p.data()["sport"]):
            self._fail("C08.clear", f"protocol=ip: line={p.line!r} sport={p.sport!r} "
                                    f"data.sport={p.data()['sport']!r}")
        slot["obj"] = self._build(slot)
        return "ok"

    def _op_port_rebuild(self, op):
        slot = self._slot(op["t"])
        if slot is None:
            return "noop"
        c = Port(**slot["obj"].data())
        self._check(c, slot, "Port(**data())")
        slot["obj"] = c
        return "ok"

    def _op_codec(self, op):
        ports = op["ports"]
        s = lib_h.ports_to_string(list(ports))
        if s != encode(ports):
            self._fail("C08.codec-encode", f"ports_to_string({ports[:20]}) = {s[:80]!r}, "
                                           f"want {encode(ports)[:80]!r}")
        back = lib_h.string_to_ports(s)
        if set(back) != set(ports) or len(back) != len(set(back)):
            self._fail("C08.codec-decode", f"string_to_ports({s[:80]!r}) != {ports[:20]}")
        self.probes["codec_roundtrips"] += 1
        return "ok"
