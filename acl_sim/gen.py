"""Workload generators: ACE specs -> Cisco text per platform (independent of the library's parser)."""

from __future__ import annotations

from ipaddress import IPv4Address

from .model import ALL32, MAXP, port_table, proto_table

BOUNDARY_PORTS = [1, 2, 3, 65533, 65534, 65535]
COMMON_PORTS = [20, 21, 22, 23, 25, 53, 69, 80, 123, 135, 161, 179, 443, 514, 521, 8080, 15001]
PROTOS = [0, 0, 6, 6, 6, 6, 17, 17, 17, 1, 1, 47, 89, 50, 51, 2, 4, 41, 88, 103, 255, 99, 200]
TCP_FLAGS = ["ack", "fin", "psh", "rst", "syn", "urg", "established"]
# (two names in lower case that start with letters of the platform keywords object-group/addrgroup)
GROUP_NAMES = ["G1", "G2", "SRV", "NET-A", "dmz-hosts", "admin"]
HEAD = "= "


def ip(i: int) -> str:
    return str(IPv4Address(i & ALL32))


def is_contig(mask: int) -> bool:
    return (mask & (mask + 1)) == 0


def plen(mask: int) -> int:
    return 32 - mask.bit_length()


# ------------------------------------------------------------------ specs


def gen_addr(w, cfg):
    """-> ('any',) | ('host', a) | ('wild', base, mask) | ('group', name)."""
    r = w.random()
    if r < cfg.get("p_any", 0.3):
        return ("any",)
    if r < 0.45:
        return ("host", _base(w))
    if r < 0.75:
        k = w.choice([1, 2, 3, 4, 8, 8, 16, 24, 31])
        mask = (1 << k) - 1
        return ("wild", _base(w) & ~mask & ALL32, mask)
    if r < 0.75 + cfg.get("p_ncw", 0.12):
        if w.random() < 0.3:
            # the small pool gen_members() draws from: the same wildcard value in an entry and
            # in a group member of one process
            mask = w.choice([0x00000503, 0x00010100])
            return ("wild", _base(w) & ~mask & ALL32, mask)
        low = w.choice([0, 0, 2, 8])
        mask = (1 << low) - 1
        for _ in range(w.randint(1, cfg.get("max_holes", 3))):
            mask |= 1 << (w.choice([31, 31, 30, 24]) if w.random() < 0.2
                          else w.randint(low + 1, 23))
        if is_contig(mask):
            mask |= 1 << 20
            if is_contig(mask):
                mask = 0x00000503
        return ("wild", _base(w) & ~mask & ALL32, mask)
    if r < 0.75 + cfg.get("p_ncw", 0.12) + cfg.get("p_group", 0.1):
        return ("group", w.choice(GROUP_NAMES))
    return ("wild", _base(w) & 0xFFFFFF00, 0xFF)


def _base(w):
    r = w.random()
    if r < 0.6:
        return (10 << 24) | (w.choice([0, 0, 1, 2]) << 16) | (w.choice([0, 0, 1, 3]) << 8) | \
               w.choice([0, 0, 1, 2, 4, 128, 255])
    if r < 0.8:
        return (192 << 24) | (168 << 16) | (w.randint(0, 3) << 8) | w.randint(0, 255)
    return w.getrandbits(32)


def gen_port(w, cfg, platform):
    """-> None | (op, (operands...))."""
    r = w.random()
    if platform == "ios" and cfg.get("p_multi_neq") and w.random() < 0.12:
        a = w.choice(COMMON_PORTS)
        return ("neq", tuple(sorted({a, a + 1, w.choice(COMMON_PORTS)}))[:3])
    if r < 0.35:
        return None
    if cfg.get("boundary_ports") and w.random() < 0.5:
        # intervals that end at, or one short of, the ends of the port range
        x = w.choice([1024, 60000, 65000, 65530])
        y = w.choice([3, 100, 1024])
        return w.choice([("range", (x, MAXP - 1)), ("range", (x, MAXP)), ("lt", (MAXP,)),
                         ("lt", (MAXP - 1,)), ("gt", (x - 1,)), ("range", (2, y)),
                         ("range", (1, y)), ("gt", (1,)), ("gt", (2,)), ("lt", (y + 1,))])

    def operand():
        x = w.random()
        if cfg.get("port_zero") and x < 0.2:
            return 0
        if cfg.get("version_ports") and w.random() < 0.4:
            # ports whose names differ between platforms / software versions
            return w.choice([135, 15001, 15002, 521, 3949, 443])
        if x < 0.25:
            return w.choice(BOUNDARY_PORTS)
        if x < 0.8:
            return w.choice(COMMON_PORTS)
        return w.randint(1, MAXP)

    if r < 0.65:
        n = 1
        if platform == "ios" and w.random() < cfg.get("p_multi", 0.35):
            n = w.randint(2, 4)
        ops = []
        while len(ops) < n:
            o = operand()
            if o not in ops:
                ops.append(o)
        if n > 1 and w.random() < 0.3 and 1 <= ops[0] <= MAXP - n:
            ops = [ops[0] + i_ for i_ in range(n)]  # consecutive ports, listed one by one
        return ("eq", tuple(ops))
    if r < 0.68:
        n = 1
        if platform == "ios" and w.random() < cfg.get("p_multi_neq", 0.0):
            n = 2
        ops = []
        while len(ops) < n:
            o = operand()
            if o not in ops:
                ops.append(o)
        return ("neq", tuple(ops))
    if r < 0.78:
        # mostly narrow denotations: the library materialises every port of an expression
        x = w.choice([2, 3, 5, 22, 100, 1024]) if w.random() < 0.85 else operand()
        if cfg.get("empty_ports") and w.random() < 0.4:
            x = 1
        if x == 1 and not cfg.get("empty_ports"):
            x = 2
        return ("lt", (x,))
    if r < 0.88:
        x = w.choice([65533, 65534, 65000, 64000]) if w.random() < 0.85 else operand()
        if cfg.get("empty_ports") and w.random() < 0.4:
            x = MAXP
        if x == MAXP and not cfg.get("empty_ports"):
            x = MAXP - 1
        return ("gt", (x,))
    a = operand()
    b = a + w.choice([0, 1, 2, 10, 100]) if w.random() < 0.85 else operand()
    b = min(b, MAXP)
    if w.random() < 0.15:
        b = w.choice([MAXP - 1, MAXP])  # an interval that ends at (or just below) the top port
        a = max(1, b - w.choice([1, 10, 100, 1000]))
    return ("range", (min(a, b), max(a, b)))


def gen_ace(w, cfg, platform):
    proto = w.choice(PROTOS)
    spec = dict(action=w.choice(["permit", "permit", "deny"]), proto=proto,
                src=gen_addr(w, cfg), dst=gen_addr(w, cfg), sport=None, dport=None,
                flags=(), logs=())
    if proto in (6, 17):
        spec["sport"] = gen_port(w, cfg, platform) if w.random() < 0.4 else None
        spec["dport"] = gen_port(w, cfg, platform)
    if proto == 6 and w.random() < cfg.get("p_flags", 0.15):
        spec["flags"] = tuple(sorted(w.sample(TCP_FLAGS[:6], w.randint(1, 2)))) \
            if w.random() < 0.8 else ("established",)
    if w.random() < cfg.get("p_log", 0.15):
        spec["logs"] = ("log",)
    return spec


GROUP_ORDER = ["G1", "G2", "SRV"]  # gen_member_sets nests them in this order


def _narrow_addr(w, addr):
    if addr[0] == "group" and addr[1] in GROUP_ORDER:
        i = GROUP_ORDER.index(addr[1])
        return ("group", GROUP_ORDER[max(0, i - 1)])
    if addr[0] == "any":
        return w.choice([("host", _base(w)), ("wild", _base(w) & 0xFFFFFF00, 0xFF)])
    if addr[0] == "wild":
        base, mask = addr[1], addr[2]
        if mask == 0:
            return addr
        if w.random() < 0.3:
            # one host inside (for a non-contiguous wildcard: inside one of its networks)
            return ("host", base | (w.getrandbits(32) & mask))
        # clear one wildcard bit, pick a value for it
        bits = [b for b in range(32) if (mask >> b) & 1]
        b = w.choice(bits)
        nmask = mask & ~(1 << b)
        nbase = base | ((w.getrandbits(1)) << b)
        if nmask == 0:
            return ("host", nbase)
        return ("wild", nbase & ~nmask & ALL32, nmask)
    return addr


def _widen_addr(w, addr):
    if addr[0] == "host":
        k = w.choice([1, 2, 8])
        m = (1 << k) - 1
        return ("wild", addr[1] & ~m & ALL32, m)
    if addr[0] == "wild":
        base, mask = addr[1], addr[2]
        if w.random() < 0.2 and ncw_bits(mask) < 4:
            # wildcard one high bit more: twice the addresses, non-contiguous
            nm = mask | (1 << w.choice([31, 31, 30, 24]))
            return ("wild", base & ~nm & ALL32, nm)
        zero = [b for b in range(24) if not (mask >> b) & 1]
        if not zero:
            return ("any",)
        low = [b for b in zero if b == 0 or (mask >> (b - 1)) & 1] or zero
        b = w.choice(low)
        nm = mask | (1 << b)
        return ("wild", base & ~nm & ALL32, nm)
    if addr[0] == "group" and addr[1] in GROUP_ORDER:
        i = GROUP_ORDER.index(addr[1])
        return ("group", GROUP_ORDER[min(len(GROUP_ORDER) - 1, i + 1)])
    return ("any",) if addr[0] != "group" else addr


def _port_interval(port):
    """(lo, hi) of a port expression that denotes one interval, else None."""
    op, ops = port
    if op == "eq" and len(ops) == 1:
        return ops[0], ops[0]
    if op == "eq" and len(ops) > 1 and sorted(ops) == list(range(min(ops), max(ops) + 1)):
        return min(ops), max(ops)  # a run of consecutive ports listed one by one
    if op == "range":
        return min(ops), max(ops)
    if op == "gt" and ops[0] < MAXP:
        return ops[0] + 1, MAXP
    if op == "lt" and ops[0] > 1:
        return 1, ops[0] - 1
    return None


def _spell_interval(w, lo, hi, platform="ios"):
    """Some spelling of the interval [lo, hi] (another operator where one exists)."""
    cands = [("range", (lo, hi))]
    if hi == MAXP and lo > 1:
        cands += [("gt", (lo - 1,))] * 2
    if lo == 1 and hi < MAXP:
        cands += [("lt", (hi + 1,))] * 2
    if lo == hi:
        cands.append(("eq", (lo,)))
    if platform == "ios" and 1 <= hi - lo <= 3:
        cands += [("eq", tuple(range(lo, hi + 1)))] * 2
    return w.choice(cands)


def _narrow_port(w, port, platform):
    if port is None:
        return ("eq", (w.choice(COMMON_PORTS),))
    op, ops = port
    iv = _port_interval(port)
    if iv and iv[0] < iv[1] and w.random() < 0.3:
        # one port less at one end, or the same set, in another spelling (still covered)
        lo, hi = iv
        lo, hi = w.choice([(lo + 1, hi), (lo, hi - 1), (lo, hi)])
        return _spell_interval(w, lo, hi, platform)
    if op == "range" and ops[0] < ops[1]:
        return w.choice([("range", (ops[0], ops[1] - 1)), ("eq", (ops[0],)), ("eq", (ops[1],))])
    if op == "eq" and len(ops) > 1:
        return ("eq", ops[:-1])
    if op == "gt" and ops[0] < MAXP - 1:
        return w.choice([("gt", (ops[0] + 1,)), ("eq", (ops[0] + 1,))])
    if op == "lt" and ops[0] > 2:
        return w.choice([("lt", (ops[0] - 1,)), ("eq", (ops[0] - 1,))])
    if op == "neq":
        other = ops[0] + 1 if ops[0] < MAXP else ops[0] - 1
        if w.random() < 0.5:
            return ("eq", (ops[-1],))  # near miss: an excluded port, NOT inside the neq set
        return ("eq", (other,))
    return port


def _widen_port(w, port, platform, boundary=False):
    if port is None:
        return None
    op, ops = port
    iv = _port_interval(port)
    if iv and w.random() < (0.85 if boundary else 0.4):
        # exactly one port more at one end, in another spelling: a near miss of the cover
        lo, hi = iv
        cands = ([(lo - 1, hi)] if lo > 1 else []) + ([(lo, hi + 1)] if hi < MAXP else [])
        if cands:
            return _spell_interval(w, *w.choice(cands), platform=platform)
    if op == "eq" and len(ops) == 1:
        p = ops[0]
        return w.choice([None, ("range", (max(1, p - 1), min(MAXP, p + 1))),
                         ("gt", (p - 1,)) if p > 1 else None,
                         ("lt", (p + 1,)) if p < MAXP else None])
    if op == "range":
        return w.choice([None, ("range", (max(1, ops[0] - 1), min(MAXP, ops[1] + 1)))])
    return None


def ncw_bits(mask: int) -> int:
    r = 0
    while r < 32 and (mask >> r) & 1:
        r += 1
    return bin(mask >> r).count("1")


def sane(spec):
    """Keep addresses within a small number of non-contiguous bits (limit of the library: 16)."""
    for side in ("src", "dst"):
        a = spec[side]
        if a[0] == "wild" and ncw_bits(a[2]) > 6:
            k = min(24, a[2].bit_length())
            m = (1 << k) - 1
            spec[side] = ("wild", a[1] & ~m & ALL32, m)
    return spec


def derive_ace(w, cfg, platform, prev):
    return sane(_derive_ace(w, cfg, platform, prev))


def _derive_ace(w, cfg, platform, prev):
    """Relational generation: a rule related to an earlier one (shadow-rich workloads)."""
    spec = dict(prev)
    how = w.choice(["dup", "dup", "narrow", "narrow", "narrow", "widen", "flip", "field",
                    "sibling", "protosib"])
    if how == "protosib":
        # the same rule for another protocol without ports; two protocols that have no name on
        # any platform are the interesting pair (both render as numbers)
        if prev["sport"] is None and prev["dport"] is None and not prev["flags"]:
            unnamed = [99, 200, 201, 255, 143]
            pool = unnamed if prev["proto"] in unnamed or w.random() < 0.5 else \
                [x for x in PROTOS if x not in (0, 6, 17)]
            spec["proto"] = w.choice([x for x in pool if x != prev["proto"]] or [200])
        return spec
    if cfg.get("boundary_ports") and w.random() < 0.6:
        how = w.choice(["widen", "widen", "narrow"])
    if how == "sibling":
        # same network and non-contiguous bits, another contiguous low run
        for side in ("src", "dst"):
            a = prev[side]
            if a[0] == "wild" and not is_contig(a[2]):
                mask = a[2]
                r = 0
                while (mask >> r) & 1:
                    r += 1
                lowest = min(b for b in range(r, 32) if (mask >> b) & 1)
                r2 = w.choice([x for x in range(0, lowest) if x != r] or [r])
                m2 = (mask >> r << r) | ((1 << r2) - 1)
                spec[side] = ("wild", a[1] & ~m2 & ALL32, m2)
        return spec
    if how == "dup":
        return spec
    if how == "flip":
        spec["action"] = "deny" if prev["action"] == "permit" else "permit"
        return spec
    side = w.choice(["src", "dst", "sport", "dport", "proto", "flags"])
    if cfg.get("boundary_ports") and prev["proto"] in (6, 17) and w.random() < 0.6:
        side = "dport" if prev["dport"] is not None else "sport"
    if how == "narrow":
        if side in ("src", "dst"):
            spec[side] = _narrow_addr(w, prev[side])
        elif side in ("sport", "dport") and prev["proto"] in (6, 17):
            spec[side] = _narrow_port(w, prev[side], platform)
        elif side == "proto" and prev["proto"] == 0:
            spec["proto"] = w.choice([6, 17, 1])
        elif side == "flags" and prev["proto"] == 6 and not prev["flags"]:
            spec["flags"] = (w.choice(TCP_FLAGS[:6]),)
        return spec
    if how == "widen":
        if side in ("src", "dst"):
            spec[side] = _widen_addr(w, prev[side])
        elif side in ("sport", "dport") and prev["proto"] in (6, 17):
            spec[side] = _widen_port(w, prev[side], platform,
                                     boundary=bool(cfg.get("boundary_ports")))
        elif side == "proto" and prev["sport"] is None and prev["dport"] is None \
                and not prev["flags"]:
            spec["proto"] = 0
        elif side == "flags":
            spec["flags"] = ()
        return spec
    # one field changed
    if side in ("src", "dst"):
        spec[side] = gen_addr(w, cfg)
    elif side in ("sport", "dport") and prev["proto"] in (6, 17):
        spec[side] = gen_port(w, cfg, platform)
    elif side == "proto" and prev["sport"] is None and prev["dport"] is None \
            and not prev["flags"]:
        # the same rule for another protocol (named or not): never covered by its sibling
        spec["proto"] = w.choice([x for x in PROTOS + [200, 201] if x not in (0, 6, 17)
                                  and x != prev["proto"]])
    else:
        spec["logs"] = () if prev["logs"] else ("log",)
    return spec


# ------------------------------------------------------------------ rendering


def render_addr(addr, platform, w=None):
    kind = addr[0]
    if kind == "any":
        return "any"
    if kind == "host":
        return f"host {ip(addr[1])}"
    if kind == "group":
        return ("addrgroup " if platform == "nxos" else "object-group ") + addr[1]
    base, mask = addr[1], addr[2]
    if mask == 0:
        return f"host {ip(base)}"
    if platform == "nxos" and is_contig(mask):
        return f"{ip(base)}/{plen(mask)}"
    return f"{ip(base)} {ip(mask)}"


def render_port(port, platform, version, proto, names: bool, w=None):
    if port is None:
        return ""
    op, ops = port
    table = {}
    if names:
        for k, v in port_table(platform, version, proto).items():
            table.setdefault(v, k)
    toks = [op]
    for o in ops:
        toks.append(table.get(o, str(o)) if names else str(o))
    return " ".join(toks)


def render_proto(proto, platform, names: bool):
    if names:
        for k, v in proto_table(platform).items():
            if v == proto:
                return k
    return str(proto)


def render_ace(spec, platform, version="0", seq=0, names=True, standard=False):
    parts = []
    if seq:
        parts.append(str(seq))
    parts.append(spec["action"])
    if standard:
        parts.append(render_addr(spec["src"], platform))
        parts.extend(spec["logs"])
        return " ".join(parts)
    parts.append(render_proto(spec["proto"], platform, names))
    parts.append(render_addr(spec["src"], platform))
    sp = render_port(spec["sport"], platform, version, spec["proto"], names)
    if sp:
        parts.append(sp)
    parts.append(render_addr(spec["dst"], platform))
    dp = render_port(spec["dport"], platform, version, spec["proto"], names)
    if dp:
        parts.append(dp)
    parts.extend(spec["flags"])
    parts.extend(spec["logs"])
    return " ".join(parts)


def header(platform, type_, name):
    if platform == "nxos":
        return f"ip access-list {name}"
    return f"ip access-list {type_} {name}"


REMARK_WORDS = ["web", "dns", "mgmt", "C-1", "C-2", "block", "tmp 123", "allow all", "10 things"]


def gen_acl_lines(w, cfg, platform, version):
    """-> (body lines, specs).  Body lines are Cisco text, without indentation."""
    n = w.randint(cfg.get("min_lines", 1), cfg.get("max_lines", 8))
    numbered = cfg.get("numbered", "none")
    names = cfg.get("names", True)
    lines, specs = [], []
    aces = []
    seq = 0
    heads = 0
    for i in range(n):
        seq += 10
        s = seq if numbered == "all" or (numbered == "some" and w.random() < 0.5) else 0
        r = w.random()
        if r < cfg.get("p_heading", 0.15):
            heads += 1
            if cfg.get("dup_headings") and heads > 1 and w.random() < 0.4:
                text = f"{HEAD}H1"
            elif cfg.get("prefix_headings") and w.random() < 0.3:
                text = f"{HEAD}H1{heads}"
            else:
                text = f"{HEAD}H{heads}"
            lines.append((f"{s} " if s else "") + f"remark {text}")
            specs.append(None)
            continue
        if r < cfg.get("p_heading", 0.15) + cfg.get("p_remark", 0.1):
            lines.append((f"{s} " if s else "") + f"remark {w.choice(REMARK_WORDS)}")
            specs.append(None)
            continue
        if aces and w.random() < cfg.get("p_related", 0.5):
            pool = aces
            if cfg.get("boundary_ports"):
                pool = [a for a in aces if a["dport"] or a["sport"]] or aces
            spec = derive_ace(w, cfg, platform, w.choice(pool))
        else:
            spec = gen_ace(w, cfg, platform)
        aces.append(spec)
        specs.append(spec)
        lines.append(render_ace(spec, platform, version, s, names))
    return lines, specs


def gen_members(w, platform, n):
    """Member address lines (as Address items of an ACE address) -> list[str]."""
    out = []
    for _ in range(n):
        r = w.random()
        if r < 0.3:
            out.append(f"host {ip(_base(w))}")
        elif r < 0.85:
            k = w.choice([1, 2, 4, 8, 16])
            mask = (1 << k) - 1
            base = _base(w) & ~mask & ALL32
            out.append(f"{ip(base)}/{32 - k}" if platform == "nxos" else f"{ip(base)} {ip(mask)}")
        else:
            mask = w.choice([0x00000503, 0x00010100, 0x80000003, 0x800000FF])
            base = _base(w) & ~mask & ALL32
            out.append(f"{ip(base)} {ip(mask)}")
    return out


def _member_line(platform, base, mask):
    if mask == 0:
        return f"host {ip(base)}"
    if platform == "nxos" and is_contig(mask):
        return f"{ip(base)}/{plen(mask)}"
    return f"{ip(base)} {ip(mask)}"


def gen_member_sets(w, platform):
    """Related member lists: G1 inside G2 inside SRV, NET-A unrelated (shadow-rich groups)."""
    core = []
    for _ in range(w.randint(1, 3)):
        k = w.choice([2, 4, 8])
        mask = (1 << k) - 1
        core.append((_base(w) & ~mask & ALL32, mask))
    g2 = list(core)
    g1 = []
    for base, mask in core[: w.randint(1, len(core))]:
        a = _narrow_addr(w, ("wild", base, mask))
        g1.append((a[1], 0) if a[0] == "host" else (a[1], a[2]))
    srv = []
    for base, mask in core:
        a = _widen_addr(w, ("wild", base, mask))
        srv.append((0, ALL32) if a[0] == "any" else (a[1], a[2]))
    srv = [(b, m) for b, m in srv if m != ALL32] or list(core)
    out = {
        "G1": [_member_line(platform, b, m) for b, m in g1],
        "G2": [_member_line(platform, b, m) for b, m in g2],
        "SRV": [_member_line(platform, b, m) for b, m in srv],
    }
    if w.random() < 0.6:
        out["NET-A"] = gen_members(w, platform, w.randint(1, 3))
    for name in GROUP_NAMES[4:]:
        if w.random() < 0.6:
            out[name] = gen_members(w, platform, w.randint(1, 3))
    if w.random() < 0.2:
        out.pop(w.choice(sorted(out)))
    return out
