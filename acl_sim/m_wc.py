"""M-WC: histories of (query, reassign, query) on Wildcard / Address objects under memo faults (C05)."""

from __future__ import annotations

import gc
from ipaddress import IPv4Address, IPv4Network, NetmaskValueError

from cisco_acl import Address, AddressAg, Wildcard

from .core import Machine, Streams, Violation
from .seams import SimIds, SimLog, SimMemo

ALL = 0xFFFFFFFF
ENUM_K = 12  # enumerate ipnets() when ncw bits <= ENUM_K (2**12 networks); above: accept/reject only


def ip(i: int) -> str:
    return str(IPv4Address(i & ALL))


def split_mask(mask: int):
    """-> (low run length r, tuple of non-contiguous bit indexes)."""
    r = 0
    while r < 32 and (mask >> r) & 1:
        r += 1
    ncw = tuple(b for b in range(r, 32) if (mask >> b) & 1)
    return r, ncw


def is_contig(mask: int) -> bool:
    return (mask & (mask + 1)) == 0


def parse_wc_line(line: str):
    a, m = line.split()
    return int(IPv4Address(a)), int(IPv4Address(m))


class WcMachine(Machine):
    name = "M-WC"
    PROPS = ("C05",)
    QUICK_RUNS = {"C05": 4000}
    THOROUGH_BUDGET_S = 600
    RULE = (
        "one evaluation = one seeded history (<= 40 ops) over <= 6 live Wildcard/Address objects "
        "interleaved with memo clear/bypass/resize/pressure and gc events; distinct = distinct "
        "abstract end state (tuple of (base&~mask, mask, limit, kind) per live object + memo flag); "
        "non-trivial = the history contains at least one reassignment of a live object followed by "
        "a query of the same object"
    )
    COMPONENTS = {
        "real": ["cisco_acl.wildcard", "cisco_acl.address_base", "cisco_acl.address",
                 "cisco_acl.address_ag", "cisco_acl.helpers", "ipaddress",
                 "functools.lru_cache (real, perturbed via cache_clear/__wrapped__/re-wrap)",
                 "logging (real, simulator-owned handlers)"],
        "stub": ["uuid1 -> SimIds (logical counter)"],
    }
    ASSUMPTIONS = [
        f"ipnets() is enumerated and checked exactly for <= {ENUM_K} non-contiguous bits; above "
        "that only accept/reject at line-set time is checked (2**30 networks cannot be built)",
        "history length <= 40, population <= 6 objects",
        "the SUT reads no clock: simulated time is the event sequence number",
    ]

    def __init__(self, prop, tier="quick"):
        super().__init__(prop, tier)
        self.ids = SimIds()
        self.memo = SimMemo()
        self.log = SimLog()
        self.slots = []
        self.reassigned_then_queried = False
        self.dead_ids = set()

    # ------------------------------------------------------------- config
    def draw_config(self, st: Streams, idx: int) -> dict:
        w = st.w
        long = self.tier == "thorough"
        return dict(
            steps=w.randint(3, 40 if long else 30),
            memo_faults=w.random() < 0.5,
            memo_rate=w.choice([0.05, 0.1, 0.2]),
            memo_size=w.choice(["shipped", "shipped", "shipped", None, 0, 1, 2]),
            pressure=w.random() < 0.4,
            gc_events=w.random() < 0.4,
            limit_bias=w.choice([0, 1, 2, 3, 5, 8, 16, 16, 30]),
            addr_share=w.choice([0.0, 0.3, 0.6]),
            bad_lines=w.random() < 0.25,
            log_faults=w.random() < 0.3,
            log_level=w.choice(["DEBUG", "WARNING"]),
        )

    def reset(self, cfg):
        self.cfg = cfg
        self.ids.install()
        self.memo.install()
        self.log.install(cfg.get("log_level", "DEBUG"))
        if cfg.get("memo_size", "shipped") != "shipped" and self.memo.present:
            self.memo.resize(cfg["memo_size"])
            self.memo.fired["resize"] = 0
        self.slots = []
        self.n_ops = 0
        self.press_base = 0

    def teardown(self):
        self.slots = []
        self.memo.uninstall()
        self.log.uninstall()
        self.ids.uninstall()

    def nontrivial(self):
        return self.reassigned_then_queried

    def state_hash(self):
        items = []
        for s in self.slots:
            if s is None:
                items.append("-")
            else:
                if s["kind"] == "grp":
                    items.append("grp:" + ",".join(f"{b & ~m & ALL:x}/{m:x}" for b, m in s["members"]))
                    continue
                items.append(f"{s['kind']}:{s['base'] & ~s['mask'] & ALL:x}:{s['mask']:x}:{s['limit']}")
        return "|".join(items) + f"|memo={int(self.memo.present)}"

    # ------------------------------------------------------------- generation
    def _gen_mask(self, w, limit):
        kind = w.random()
        if kind < 0.08:
            return 0
        if kind < 0.14:
            return ALL
        r = w.choice([0, 0, 1, 2, 3, 8, 16, 24, w.randint(0, 30)])
        if kind < 0.3:
            return (1 << r) - 1
        # non-contiguous: pick k relative to the limit
        choice = w.random()
        if choice < 0.35:
            k = limit
        elif choice < 0.6:
            k = limit + 1
        else:
            k = w.choice([1, 1, 2, 2, 3, 4, 5, 6])
        room = list(range(r + 1, 32))
        k = max(0, min(k, len(room)))
        if w.random() < 0.3 and k:
            pool = [b for b in (31, 30, 8, 1, r + 1) if b in room]
            bits = set(w.sample(pool, min(len(pool), k)))
            while len(bits) < k:
                bits.add(w.choice(room))
        else:
            bits = set(w.sample(room, k))
        m = (1 << r) - 1
        for b in bits:
            m |= 1 << b
        return m

    def _gen_base(self, w, mask):
        base = w.getrandbits(32)
        if w.random() < 0.5:
            base &= ~mask & ALL  # clean base
        if w.random() < 0.3:
            base = (10 << 24) | (base & 0xFFFF)
        return base

    def _gen_wc_line(self, w, limit):
        live = [x for x in self.slots if x is not None and not is_contig(x["mask"])]
        if live and w.random() < 0.25:
            # sibling of a live object: same network and non-contiguous bits, another low run
            x = w.choice(live)
            r, ncw = split_mask(x["mask"])
            r2 = w.choice([v for v in range(0, min(ncw)) if v != r] or [r])
            mask = (x["mask"] >> r << r) | ((1 << r2) - 1)
            base = x["base"] & ~mask & ALL
            return f"{ip(base)} {ip(mask)}"
        mask = self._gen_mask(w, limit)
        base = self._gen_base(w, mask)
        sep = w.choice([" ", " ", "  ", " \t"])
        return f"{ip(base)}{sep}{ip(mask)}"

    def _gen_bad_line(self, w):
        return w.choice(["", "10.0.0.0", "10.0.0.0 0.0.0", "a b", "10.0.0.0 0.0.0.256",
                         "10.0.0.0/24", "300.0.0.0 0.0.0.3", "10.0.0.0 0.0.0.3 1"])

    def _memo_schedule(self, st):
        if not (self.cfg["memo_faults"] and self.memo.present):
            return []
        f = st.f
        sched = []
        for i in range(8):
            if f.random() < self.cfg["memo_rate"]:
                sched.append([i, f.choice(["clear", "bypass"])])
        return sched

    def next_op(self, st: Streams) -> dict:
        w, s = st.w, st.s
        cfg = self.cfg
        live = [i for i, x in enumerate(self.slots) if x is not None]
        plan = getattr(self, "_plan", [])
        if plan:
            kind = plan.pop(0)
            if kind == "gc_collect":
                return dict(op="gc_collect")
            limit0 = w.choice([cfg["limit_bias"], 16])
            return dict(op="wc_new", line=self._gen_wc_line(w, limit0), limit=limit0, ctor="line")
        limit = w.choice([cfg["limit_bias"], cfg["limit_bias"], w.choice([0, 1, 2, 3, 4, 16, 30])])
        if len(live) < 2 or (len(live) < 6 and s.random() < 0.15):
            if s.random() < cfg["addr_share"]:
                return self._gen_addr_new(w, limit)
            ctor = w.choice(["line"] * 6 + ["fprefix", "fsubnet"])
            if ctor == "line":
                line = self._gen_wc_line(w, limit)
            elif ctor == "fprefix":
                ln = w.randint(0, 32)
                net = IPv4Network((w.getrandbits(32) & (ALL << (32 - ln)) & ALL, ln))
                line = str(net)
            else:
                ln = w.randint(0, 32)
                net = IPv4Network((w.getrandbits(32) & (ALL << (32 - ln)) & ALL, ln))
                line = net.with_netmask.replace("/", " ")
            return dict(op="wc_new", line=line, limit=limit, ctor=ctor)
        r = s.random()
        t = s.randrange(len(live))  # position in the live list (what _slot() resolves)
        if cfg["gc_events"] and r < 0.04:
            return dict(op="gc_collect")
        if cfg["gc_events"] and r < 0.08:
            # free an object, collect, and allocate again at once: identity (id) reuse
            self._plan = ["gc_collect", "wc_new", "wc_new"]
            return dict(op="drop", t=t)
        if cfg["pressure"] and r < 0.16:
            return dict(op="memo_pressure", n=s.choice([1, 5, 40, 130, 260]))
        if cfg["memo_faults"] and r < 0.22:
            return dict(op="memo_clear")
        if cfg["memo_faults"] and r < 0.25:
            return dict(op="memo_resize", k=s.choice([None, 0, 1, 2, 128]))
        slot = self.slots[live[t]]
        if r < 0.50:
            if slot["kind"] == "wc":
                if cfg["bad_lines"] and w.random() < 0.15:
                    line = self._gen_bad_line(w)
                else:
                    line = self._gen_wc_line(w, slot["limit"])
                op_ = dict(op="wc_set_line", t=t, line=line)
                if cfg.get("log_faults") and st.f.random() < 0.3:
                    op_["log_fail"] = 1
                return op_
            if slot["kind"] == "grp":
                return dict(op="grp_set_member", t=t, i=w.randint(0, 9),
                            line=self._gen_addr_line(w, slot["limit"], slot["plat"], "Address"))
            return dict(op="addr_set_line", t=t, line=self._gen_addr_line(w, slot["limit"],
                                                                        slot["plat"], slot["cls"]))
        if r < 0.56:
            if slot["kind"] == "wc":
                return dict(op="wc_set_limit", t=t, k=w.choice([0, 1, 2, 3, 5, 16, 30, -1, 31]))
            if slot["kind"] == "addr" and slot["cls"] == "Address":
                return dict(op="addr_set_limit", t=t, k=w.choice([0, 1, 2, 3, 5, 16, 30]))
        if r < 0.60:
            return dict(op="set_platform", t=t, p=w.choice(["ios", "nxos"]))
        if slot["kind"] == "wc" and r < 0.64 and len(live) < 6:
            return dict(op="wc_clone_uuid", t=t)
        if slot["kind"] == "wc":
            what = s.choice(["ipnets", "ipnets", "ipnets", "ipnet", "line", "data", "copy",
                             "ipnets_scribble"])
            op_ = dict(op="wc_query", t=t, what=what, memo=self._memo_schedule(st))
            if what == "ipnets_scribble":
                op_["how"] = s.choice(["clear", "pop", "extend", "reverse"])
            return op_
        what = s.choice(["ipnets", "ipnets", "prefixes", "subnets", "wildcards", "ipnet", "data"])
        if slot["kind"] == "grp":
            return dict(op="grp_query", t=t, memo=self._memo_schedule(st))
        return dict(op="addr_query", t=t, what=what, memo=self._memo_schedule(st))

    def _gen_addr_line(self, w, limit, plat, cls):
        mask = self._gen_mask(w, limit)
        base = self._gen_base(w, mask) & ~mask & ALL
        if cls == "AddressAg":
            # group members: IOS takes subnet masks (contiguous only), NX-OS wildcards/prefixes
            if plat == "ios":
                r = w.choice([0, 1, 2, 8, 16, 24, 31])
                mask = (1 << r) - 1
                base &= ~mask & ALL
                if mask == 0:
                    return f"host {ip(base)}"
                return f"{ip(base)} {ip(~mask & ALL)}"
            if is_contig(mask) and mask not in (ALL,) and w.random() < 0.5:
                return f"{ip(base)}/{32 - split_mask(mask)[0]}"
            if mask == ALL:
                return "0.0.0.0/0"
            return f"{ip(base)} {ip(mask)}"
        form = w.random()
        if mask == 0 and form < 0.5:
            return f"host {ip(base)}"
        if mask == ALL and form < 0.5:
            return "any"
        if is_contig(mask) and form < 0.3:
            return f"{ip(base)}/{32 - split_mask(mask)[0]}"
        return f"{ip(base)} {ip(mask)}"

    def _gen_grp_new(self, w, limit):
        plat = w.choice(["ios", "nxos"])
        lines = [self._gen_addr_line(w, limit, plat, "Address") for _ in range(w.randint(1, 4))]
        lines = [ln for ln in lines if ln != "any"] or ["host 10.0.0.1"]
        return dict(op="grp_new", platform=plat, limit=limit, lines=lines)

    def _gen_addr_new(self, w, limit):
        if w.random() < 0.3:
            return self._gen_grp_new(w, limit)
        plat = w.choice(["ios", "nxos"])
        cls = w.choice(["Address", "Address", "AddressAg"])
        return dict(op="addr_new", cls=cls, platform=plat, limit=limit,
                    line=self._gen_addr_line(w, limit, plat, cls))

    # ------------------------------------------------------------- oracles
    def _fail(self, oracle, msg, **disc):
        raise Violation("C05", oracle, msg, disc)

    def _check_ipnets(self, nets, base, mask, where):
        r, ncw = split_mask(mask)
        k = len(ncw)
        care = ~mask & ALL
        want = 1 << k
        if len(nets) != want:
            self._fail("C05.count", f"{where}: {len(nets)} networks for k={k} (want {want}) "
                                    f"line={ip(base)} {ip(mask)}", k_gt0=k > 0)
        seen = set()
        for n in nets:
            if n.prefixlen != 32 - r:
                self._fail("C05.prefixlen", f"{where}: {n} prefixlen != {32 - r} for "
                                            f"{ip(base)} {ip(mask)}")
            a = int(n.network_address)
            if (a & care) != (base & care):
                self._fail("C05.care-bits", f"{where}: {n} disagrees with base on care bits of "
                                            f"{ip(base)} {ip(mask)}")
            if a & ((1 << r) - 1):
                self._fail("C05.low-bits", f"{where}: {n} has host bits")
            seen.add(a)
        if len(seen) != len(nets):
            self._fail("C05.overlap", f"{where}: duplicate networks for {ip(base)} {ip(mask)}")

    def _check_wc(self, w: Wildcard, slot, where, deep=True):
        """Every derived value must describe the line the object currently reports."""
        try:
            line = w.line
            base, mask = parse_wc_line(line)
        except Exception as ex:
            self._fail("C05.line-unreadable", f"{where}: w.line failed {type(ex).__name__}")
        allowed = slot["lines"]
        if (base & ~mask & ALL, mask) not in allowed:
            self._fail("C05.line-model", f"{where}: w.line={line!r} not in model {sorted(allowed)}")
        if base & mask:
            self._fail("C05.base-masked", f"{where}: base has bits under the wildcard: {line!r}")
        if w.prefix != ip(base) or w.wildmask != ip(mask):
            self._fail("C05.prefix-wildmask", f"{where}: prefix/wildmask {w.prefix} {w.wildmask} "
                                              f"!= line {line!r}")
        r, ncw = split_mask(mask)
        if is_contig(mask):
            want = IPv4Network((base, 32 - r))
            if w.ipnet != want:
                self._fail("C05.ipnet", f"{where}: ipnet={w.ipnet} want {want} for {line!r}")
        elif w.ipnet is not None:
            self._fail("C05.ipnet", f"{where}: ipnet={w.ipnet} for non-contiguous {line!r}")
        d = w.data()
        if (d["line"], d["prefix"], d["wildmask"], d["ipnet"], d["max_ncwb"]) != (
                line, ip(base), ip(mask), w.ipnet, w.max_ncwb):
            self._fail("C05.data", f"{where}: data() out of sync with line {line!r}")
        if w.max_ncwb != slot["limit"]:
            self._fail("C05.limit-model", f"{where}: max_ncwb={w.max_ncwb} model={slot['limit']}")
        if deep and len(ncw) <= ENUM_K:
            rejected = len(allowed) > 1 or slot.get("rejected")
            try:
                nets = w.ipnets()
            except (ValueError, TypeError):
                if rejected:
                    self.probes["refused_after_reject"] += 1
                    return  # refusing to answer after a rejected assignment is consistent
                raise
            self._check_ipnets(nets, base, mask, where + " ipnets()")

    def _check_addr(self, a, slot, where):
        base, mask = slot["base"] & ~slot["mask"] & ALL, slot["mask"]
        r, ncw = split_mask(mask)
        if len(ncw) > ENUM_K:
            return
        nets = a.ipnets()
        self._check_ipnets(nets, base, mask, where + " Address.ipnets()")
        if is_contig(mask):
            want = IPv4Network((base, 32 - r))
            if a.ipnet != want:
                self._fail("C05.addr-ipnet", f"{where}: ipnet={a.ipnet} want {want}")
        elif a.ipnet is not None:
            self._fail("C05.addr-ipnet", f"{where}: ipnet={a.ipnet} for non-contiguous mask")
        if a.prefixes() != [str(n) for n in nets]:
            self._fail("C05.addr-prefixes", f"{where}: prefixes() != ipnets()")
        if a.subnets() != [n.with_netmask.replace("/", " ") for n in nets]:
            self._fail("C05.addr-subnets", f"{where}: subnets() != ipnets()")
        if a.wildcards() != [f"{ip(base)} {ip(mask)}"]:
            self._fail("C05.addr-wildcards", f"{where}: wildcards()={a.wildcards()} want "
                                             f"{ip(base)} {ip(mask)}")

    # ------------------------------------------------------------- apply
    def _slot(self, t):
        live = [i for i, x in enumerate(self.slots) if x is not None]
        if not live:
            return None, None
        i = live[t % len(live)]
        return i, self.slots[i]

    def _put(self, slot):
        for i, x in enumerate(self.slots):
            if x is None:
                self.slots[i] = slot
                return i
        if len(self.slots) < 6:
            self.slots.append(slot)
            return len(self.slots) - 1
        self.slots[0] = slot
        return 0

    @staticmethod
    def _parse_any(line, cls="wc", plat="ios"):
        """Independent reading of a generated line -> (base, mask) or None if malformed."""
        toks = line.split()
        try:
            if cls == "wc":
                if len(toks) != 2:
                    return None
                return int(IPv4Address(toks[0])), int(IPv4Address(toks[1]))
            if toks == ["any"]:
                return 0, ALL
            if len(toks) == 2 and toks[0] == "host":
                return int(IPv4Address(toks[1])), 0
            if len(toks) == 1 and "/" in toks[0]:
                a, ln = toks[0].split("/")
                ln = int(ln)
                return int(IPv4Address(a)), (1 << (32 - ln)) - 1
            if len(toks) == 2:
                a, m = int(IPv4Address(toks[0])), int(IPv4Address(toks[1]))
                if cls == "AddressAg" and plat == "ios":
                    m = ~m & ALL  # IOS group members carry subnet masks
                return a, m
        except ValueError:
            return None
        return None

    def apply(self, op: dict) -> str:
        self.n_ops += 1
        kind = op["op"]
        self.memo.begin_op(op.get("memo"))
        try:
            return getattr(self, "_op_" + kind)(op)
        finally:
            self.faults["memo_clear"] = self.memo.fired["clear"]
            self.faults["memo_bypass"] = self.memo.fired["bypass"]
            self.faults["memo_resize"] = self.memo.fired["resize"]
            self.faults["memo_pressure"] = self.memo.fired["pressure"]
            self.probes["memo_calls"] = self.memo.calls

    # seam events
    def _op_memo_clear(self, op):
        self.memo.clear()
        for s in self.slots:
            if s:
                s["cleared_since_q"] = True
        return "ok"

    def _op_memo_resize(self, op):
        if self.memo.present:
            self.memo.resize(op["k"])
        for s in self.slots:
            if s:
                s["cleared_since_q"] = True
        return "ok"

    def _op_memo_pressure(self, op):
        self.memo.pressure(op["n"], self.press_base)
        self.press_base += op["n"]
        return "ok"

    def _op_gc_collect(self, op):
        gc.collect()
        self.faults["gc_collect"] += 1
        return "ok"

    def _op_drop(self, op):
        i, slot = self._slot(op["t"])
        if slot is None:
            return "noop"
        self.dead_ids.add(id(slot["obj"]))
        self.slots[i] = None
        self.faults["drop"] += 1
        return "ok"

    # wildcard ops
    def _op_wc_new(self, op):
        line, limit, ctor = op["line"], op["limit"], op["ctor"]
        if ctor == "line":
            pm = self._parse_any(line)
            build = lambda: Wildcard(line, max_ncwb=limit)  # noqa: E731
        elif ctor == "fprefix":
            pm = self._parse_any(line, "Address")
            build = lambda: Wildcard.fprefix(line, max_ncwb=limit)  # noqa: E731
        else:
            a, m = line.split()
            pm = int(IPv4Address(a)), ~int(IPv4Address(m)) & ALL
            build = lambda: Wildcard.fsubnet(line, max_ncwb=limit)  # noqa: E731
        base, mask = pm
        k = len(split_mask(mask)[1])
        try:
            w = build()
        except NetmaskValueError:
            if k <= limit:
                self._fail("C05.reject-iff", f"new {line!r} limit={limit} k={k} rejected")
            self.probes["rejected_new"] += 1
            return "NetmaskValueError"
        if k > limit:
            self._fail("C05.reject-iff", f"new {line!r} limit={limit} k={k} accepted "
                                         f"(a mask over the limit must be rejected)")
        if id(w) in self.dead_ids:
            self.probes["id_reused_after_gc"] += 1
        slot = dict(kind="wc", obj=w, base=base, mask=mask, limit=limit, plat="ios",
                    lines={(base & ~mask & ALL, mask)}, queried=False, cleared_since_q=False)
        self._put(slot)
        if k == limit and k > 0:
            self.probes["k_eq_limit"] += 1
        self._check_wc(w, slot, f"after new({line!r})")
        return "ok"

    def _op_wc_set_line(self, op):
        i, slot = self._slot(op["t"])
        if slot is None or slot["kind"] != "wc":
            return "noop"
        w = slot["obj"]
        line = op["line"]
        pm = self._parse_any(line)
        old = (slot["base"] & ~slot["mask"] & ALL, slot["mask"])
        if pm is None:
            try:
                w.line = line
            except (ValueError, TypeError) as ex:
                out = type(ex).__name__
            else:
                self._fail("C05.malformed-accepted", f"malformed line {line!r} accepted")
            # state must still be consistent with whatever line is reported
            self._check_wc(w, slot, f"after malformed set_line({line!r})")
            return out
        base, mask = pm
        k = len(split_mask(mask)[1])
        limit = slot["limit"]
        if slot["queried"]:
            if slot["cleared_since_q"]:
                self.probes["evicted_between"] += 1
            else:
                self.probes["stale_window"] += 1
        from .seams import SinkFault
        self.log.arm(op.get("log_fail"))
        try:
            try:
                w.line = line
            finally:
                fired = bool(self.log.faulty and self.log.faulty.fired)
                self.log.arm(None)
        except SinkFault:
            # the log sink failed in the middle of the assignment: like a refused assignment the
            # object may hold the old or the new line, but what it serves must be what it reports
            self.faults["sink_failed_mid_assignment"] += 1
            slot["lines"] = {old, (base & ~mask & ALL, mask)}
            slot["rejected"] = True
            self._check_wc(w, slot, f"after set_line({line!r}) interrupted by a failing log sink")
            b2, m2 = parse_wc_line(w.line)
            slot["base"], slot["mask"] = b2, m2
            slot["lines"] = {(b2, m2)}
            return "SinkFault"
        except NetmaskValueError:
            if k <= limit:
                self._fail("C05.reject-iff", f"set_line {line!r} limit={limit} k={k} rejected")
            self.probes["rejected_set"] += 1
            # rejected, never approximated: the object may keep the old line or report the new
            # one, but whatever it reports must be what it serves
            slot["lines"] = {old, (base & ~mask & ALL, mask)}
            slot["rejected"] = True
            self._check_wc(w, slot, f"after rejected set_line({line!r}, limit={limit})")
            # settle the model on what the object reports
            b2, m2 = parse_wc_line(w.line)
            slot["base"], slot["mask"] = b2, m2
            slot["lines"] = {(b2, m2)}
            return "NetmaskValueError"
        if k > limit:
            self._fail("C05.reject-iff", f"set_line {line!r} limit={limit} k={k} accepted")
        slot["base"], slot["mask"] = base, mask
        slot["lines"] = {(base & ~mask & ALL, mask)}
        slot["rejected"] = False
        if slot["queried"]:
            slot["reassigned_after_q"] = True
        self._check_wc(w, slot, f"after set_line({line!r})", deep=False)
        return "ok"

    def _op_wc_clone_uuid(self, op):
        """A second live object rebuilt from data(uuid=True): same identifier, own state."""
        i, slot = self._slot(op["t"])
        if slot is None or slot["kind"] != "wc":
            return "noop"
        w = slot["obj"]
        k = len(split_mask(slot["mask"])[1])
        try:
            d = {k_: v for k_, v in w.data(uuid=True).items()
                 if k_ in ("line", "max_ncwb", "platform", "version", "note", "uuid")}
            c = Wildcard(**d)
        except NetmaskValueError:
            if k <= slot["limit"]:
                self._fail("C05.reject-iff", "rebuild from data(uuid=True) rejected")
            return "NetmaskValueError"
        new = dict(slot, obj=c, lines=set(slot["lines"]), queried=False, cleared_since_q=False)
        new.pop("reassigned_after_q", None)
        self._put(new)
        self.probes["same_uuid_twins"] += 1
        self._check_wc(c, new, "rebuild from data(uuid=True)")
        return "ok"

    def _op_wc_set_limit(self, op):
        i, slot = self._slot(op["t"])
        if slot is None or slot["kind"] != "wc":
            return "noop"
        k = op["k"]
        try:
            slot["obj"].max_ncwb = k
        except (ValueError, TypeError) as ex:
            if 0 <= k <= 30:
                self._fail("C05.limit-range", f"max_ncwb={k} rejected")
            return type(ex).__name__
        if not 0 <= k <= 30:
            self._fail("C05.limit-range", f"max_ncwb={k} accepted (allowed 0..30)")
        slot["limit"] = k
        return "ok"

    def _op_set_platform(self, op):
        i, slot = self._slot(op["t"])
        if slot is None:
            return "noop"
        obj = slot["obj"]
        if slot["kind"] == "grp":
            obj.platform = op["p"]
            slot["plat"] = op["p"]
            self._check_grp(obj, slot, f"after group platform={op['p']}")
            return "ok"
        if slot["kind"] == "addr":
            if slot["cls"] == "AddressAg":
                return "noop"  # members change spelling domain with the platform (C02's business)
            k = len(split_mask(slot["mask"])[1])
            try:
                obj.platform = op["p"]
            except NetmaskValueError:
                # the re-initialisation re-sets the line under a limit lowered meanwhile
                if k <= slot["limit"]:
                    self._fail("C05.reject-iff", f"Address.platform re-set rejected k={k} "
                                                 f"limit={slot['limit']}")
                self.slots[i] = None  # torn by the aborted re-initialisation: discarded
                self.probes["addr_platform_rejected_over_limit"] += 1
                return "NetmaskValueError"
            if k > slot["limit"]:
                self._fail("C05.reject-iff", f"Address.platform re-set accepted k={k} over the "
                                             f"limit {slot['limit']}")
            slot["plat"] = op["p"]
            self._check_addr(obj, slot, f"after platform={op['p']}")
            return "ok"
        k = len(split_mask(slot["mask"])[1])
        try:
            obj.platform = op["p"]  # runs line = line
        except NetmaskValueError:
            # re-validation against a lowered limit is a legal rejection of a line re-set
            if k <= slot["limit"]:
                self._fail("C05.reject-iff", f"platform= re-set of line rejected k={k} "
                                             f"limit={slot['limit']}")
            self._check_wc(obj, slot, "after rejected platform re-set")
            return "NetmaskValueError"
        if k > slot["limit"]:
            # line re-set while over a lowered limit was accepted
            self._fail("C05.reject-iff", f"platform= re-set accepted k={k} over limit "
                                         f"{slot['limit']}")
        self._check_wc(obj, slot, f"after platform={op['p']}")
        return "ok"

    def _op_wc_query(self, op):
        i, slot = self._slot(op["t"])
        if slot is None or slot["kind"] != "wc":
            return "noop"
        w = slot["obj"]
        what = op["what"]
        if slot.get("reassigned_after_q"):
            self.reassigned_then_queried = True
            self.probes["query_after_reassign"] += 1
        if what == "copy":
            try:
                c = w.copy()
            except NetmaskValueError:
                # copy() re-sets the line under the object's own limit: a legal rejection when
                # the limit was lowered below the mask (or after a rejected assignment)
                b, m = parse_wc_line(w.line)
                if len(split_mask(m)[1]) <= w.max_ncwb:
                    self._fail("C05.reject-iff", f"copy() of {w.line!r} limit={w.max_ncwb} "
                                                 f"rejected")
                self.probes["copy_rejected_over_limit"] += 1
                return "NetmaskValueError"
            self._check_wc(c, slot, "copy()")
        elif what in ("ipnets",):
            self._check_wc(w, slot, "query ipnets")
        elif what == "ipnets_scribble":
            # the caller owns the returned list: emptying it must not change later answers
            k = len(split_mask(slot["mask"])[1])
            if k <= ENUM_K and not slot.get("rejected"):
                got = w.ipnets()
                how = op.get("how", "clear")
                if how == "clear" or not got:
                    got.clear()
                elif how == "pop":
                    got.pop()
                elif how == "extend":
                    got.extend(list(got[:1]) * 2)
                else:
                    got.reverse()
                    got.append(got[0])
                self.probes["returned_list_scribbled"] += 1
            self._check_wc(w, slot, "query after the returned list was emptied")
        else:
            self._check_wc(w, slot, f"query {what}", deep=False)
        slot["queried"] = True
        slot["cleared_since_q"] = False
        return "ok"

    # address ops
    def _op_addr_new(self, op):
        cls = Address if op["cls"] == "Address" else AddressAg
        line, limit, plat = op["line"], op["limit"], op["platform"]
        pm = self._parse_any(line, op["cls"], plat)
        base, mask = pm
        k = len(split_mask(mask)[1])
        try:
            a = cls(line, platform=plat, max_ncwb=limit)
        except NetmaskValueError:
            if op["cls"] == "AddressAg" and plat == "ios" and not is_contig(mask):
                return "NetmaskValueError"  # non-contiguous subnet mask: not a mask
            if k <= limit:
                self._fail("C05.reject-iff", f"{op['cls']}({line!r}) limit={limit} k={k} rejected")
            self.probes["rejected_new"] += 1
            return "NetmaskValueError"
        except ValueError:
            if op["cls"] == "AddressAg":
                return "ValueError"  # e.g. 'any'/0.0.0.0 mask not allowed as IOS group member
            raise
        if k > limit:
            self._fail("C05.reject-iff", f"{op['cls']}({line!r}) limit={limit} k={k} accepted")
        slot = dict(kind="addr", cls=op["cls"], obj=a, base=base, mask=mask, limit=limit,
                    plat=plat, queried=False, cleared_since_q=False)
        self._put(slot)
        self._check_addr(a, slot, f"after {op['cls']}({line!r}, {plat})")
        return "ok"

    def _op_addr_set_line(self, op):
        i, slot = self._slot(op["t"])
        if slot is None or slot["kind"] != "addr":
            return "noop"
        a = slot["obj"]
        line = op["line"]
        pm = self._parse_any(line, slot["cls"], slot["plat"])
        if pm is None:
            return "noop"
        base, mask = pm
        k = len(split_mask(mask)[1])
        if slot["queried"]:
            self.probes["stale_window" if not slot["cleared_since_q"] else "evicted_between"] += 1
        ios_member = slot["cls"] == "AddressAg" and slot["plat"] == "ios"
        try:
            a.line = line
        except NetmaskValueError:
            if ios_member and not is_contig(mask):
                # a non-contiguous *subnet mask* is not a mask at all: legal refusal
                self._check_addr(a, slot, f"after refused addr.line={line!r}")
                return "NetmaskValueError"
            if k <= slot["limit"]:
                self._fail("C05.reject-iff", f"addr.line={line!r} k={k} limit={slot['limit']} "
                                             f"rejected")
            self.probes["rejected_set"] += 1
            # the address must keep serving its previous value consistently
            self._check_addr(a, slot, f"after rejected addr.line={line!r}")
            return "NetmaskValueError"
        except ValueError:
            if slot["cls"] == "AddressAg":
                self._check_addr(a, slot, f"after refused addr.line={line!r}")
                return "ValueError"
            raise
        if k > slot["limit"]:
            self._fail("C05.reject-iff", f"addr.line={line!r} k={k} limit={slot['limit']} accepted")
        slot["base"], slot["mask"] = base, mask
        if slot["queried"]:
            slot["reassigned_after_q"] = True
        return "ok"

    # address-group ops: members are wildcards queried through the same memo
    def _check_grp(self, g, slot, where):
        want_nets = 0
        for (base, mask), item in zip(slot["members"], g.items):
            if len(split_mask(mask)[1]) > ENUM_K:
                return
            self._check_ipnets(item.ipnets(), base & ~mask & ALL, mask, where + " member.ipnets()")
            want_nets += 1 << len(split_mask(mask)[1])
        nets = g.ipnets()
        if len(nets) != want_nets:
            self._fail("C05.group-ipnets", f"{where}: group.ipnets() has {len(nets)} networks, "
                                           f"members give {want_nets}")
        pos = 0
        for base, mask in slot["members"]:
            k = 1 << len(split_mask(mask)[1])
            self._check_ipnets(nets[pos:pos + k], base & ~mask & ALL, mask,
                               where + " group.ipnets() slice")
            pos += k
        if g.prefixes() != [str(n) for n in nets]:
            self._fail("C05.group-prefixes", f"{where}: prefixes() != ipnets()")
        want_w = [f"{ip(b & ~m & ALL)} {ip(m)}" for b, m in slot["members"]]
        if g.wildcards() != want_w:
            self._fail("C05.group-wildcards", f"{where}: wildcards()={g.wildcards()} want {want_w}")

    def _op_grp_new(self, op):
        plat, limit = op["platform"], op["limit"]
        name = "object-group G" if plat == "ios" else "addrgroup G"
        members = []
        for ln in op["lines"]:
            pm = self._parse_any(ln, "Address", plat)
            if pm is None or len(split_mask(pm[1])[1]) > limit:
                return "noop"
            members.append(pm)
        g = Address(name, platform=plat, max_ncwb=limit, items=list(op["lines"]))
        slot = dict(kind="grp", cls="Address", obj=g, members=members, limit=limit, plat=plat,
                    base=0, mask=0, queried=False, cleared_since_q=False)
        self._put(slot)
        self._check_grp(g, slot, "after group new")
        return "ok"

    def _op_grp_set_member(self, op):
        i, slot = self._slot(op["t"])
        if slot is None or slot["kind"] != "grp":
            return "noop"
        g = slot["obj"]
        pm = self._parse_any(op["line"], "Address", slot["plat"])
        if pm is None or not g.items or op["line"] == "any":
            return "noop"
        j = op["i"] % len(g.items)
        k = len(split_mask(pm[1])[1])
        if slot["queried"]:
            self.probes["stale_window" if not slot["cleared_since_q"] else "evicted_between"] += 1
        try:
            g.items[j].line = op["line"]
        except NetmaskValueError:
            if k <= slot["limit"]:
                self._fail("C05.reject-iff", f"member.line={op['line']!r} k={k} rejected")
            self._check_grp(g, slot, "after rejected member reassignment")
            return "NetmaskValueError"
        if k > slot["limit"]:
            self._fail("C05.reject-iff", f"member.line={op['line']!r} k={k} accepted over limit")
        slot["members"][j] = pm
        if slot["queried"]:
            slot["reassigned_after_q"] = True
        return "ok"

    def _op_grp_query(self, op):
        i, slot = self._slot(op["t"])
        if slot is None or slot["kind"] != "grp":
            return "noop"
        if slot.get("reassigned_after_q"):
            self.reassigned_then_queried = True
            self.probes["query_after_reassign"] += 1
        self._check_grp(slot["obj"], slot, "group query")
        slot["queried"] = True
        slot["cleared_since_q"] = False
        return "ok"

    def _op_addr_set_limit(self, op):
        """Address.max_ncwb is a public attribute; it governs the next line assignment."""
        i, slot = self._slot(op["t"])
        if slot is None or slot["kind"] != "addr":
            return "noop"
        slot["obj"].max_ncwb = op["k"]
        slot["limit"] = op["k"]
        return "ok"

    def _op_addr_query(self, op):
        i, slot = self._slot(op["t"])
        if slot is None or slot["kind"] != "addr":
            return "noop"
        if slot.get("reassigned_after_q"):
            self.reassigned_then_queried = True
            self.probes["query_after_reassign"] += 1
        self._check_addr(slot["obj"], slot, f"addr query {op['what']}")
        slot["queried"] = True
        slot["cleared_since_q"] = False
        return "ok"
