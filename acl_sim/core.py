"""Deterministic simulation core: seeds, run loop, event log, replay, shrinking, batches, evidence.

One integer decides everything: VERIF_SEED + property + run index -> run seed -> three PRNG
streams (workload / schedule / faults).  A run produces a PRNG-free list of literal ops; replay
executes that list verbatim through the very same ``Machine.apply`` path.
"""

from __future__ import annotations

import faulthandler
import gc
import hashlib
import json
import multiprocessing
import os
import random
import signal
import subprocess
import sys
import time
import traceback
from collections import Counter
from concurrent.futures import ProcessPoolExecutor

MASK64 = (1 << 64) - 1
VERIF_DIR = os.path.dirname(os.path.dirname(os.path.abspath(__file__)))
RUN_WALL_S = 120  # wall guard per simulated run (harness timeout, never a pass)


# ------------------------------------------------------------------ seeds


def splitmix64(x: int) -> int:
    x = (x + 0x9E3779B97F4A7C15) & MASK64
    z = x
    z = ((z ^ (z >> 30)) * 0xBF58476D1CE4E5B9) & MASK64
    z = ((z ^ (z >> 27)) * 0x94D049BB133111EB) & MASK64
    return z ^ (z >> 31)


def mix(*ints: int) -> int:
    acc = 0x243F6A8885A308D3
    for i in ints:
        acc = splitmix64(acc ^ (i & MASK64))
    return acc


def run_seed(verif_seed: int, prop: str, idx: int) -> int:
    return mix(verif_seed, int(prop[1:]), idx)


class Streams:
    """Three independent PRNG streams of one run."""

    def __init__(self, seed: int):
        self.w = random.Random(mix(seed, 1))  # workload
        self.s = random.Random(mix(seed, 2))  # schedule
        self.f = random.Random(mix(seed, 3))  # faults


# ------------------------------------------------------------------ exceptions


class Violation(Exception):
    """A property oracle failed."""

    def __init__(self, prop: str, oracle: str, msg: str, disc: dict | None = None):
        super().__init__(msg)
        self.prop = prop
        self.oracle = oracle
        self.msg = msg
        self.disc = disc or {}


class HarnessTimeout(Exception):
    pass


def _alarm(_sig, _frm):
    raise HarnessTimeout("run wall guard")


# ------------------------------------------------------------------ machine base


class Machine:
    """Base of the simulated machines.  Sub-classes implement the five hooks."""

    name = "M"
    PROPS: tuple = ()
    QUICK_RUNS: dict = {}
    THOROUGH_BUDGET_S = 600
    RULE = ""
    COMPONENTS: dict = {}
    ASSUMPTIONS: list = []

    def owns(self, prop: str) -> bool:
        """Does a violation attributed to `prop` fail this check?"""
        return prop == self.prop

    def __init__(self, prop: str, tier: str = "quick"):
        self.prop = prop
        self.tier = tier
        self.probes: Counter = Counter()
        self.faults: Counter = Counter()
        self.ophist: Counter = Counter()
        self.cfg: dict = {}

    def soft_fail(self, prop: str, oracle: str, msg: str, **disc) -> None:
        """Raise a Violation unless it matches an open known finding; then count it and go on, so
        that a recorded defect does not end every run that meets it."""
        if not hasattr(self, "_known"):
            self._known = load_known()
        f = dict(prop=prop, oracle=oracle, op=getattr(self, "_cur_op", ""), disc=disc)
        ent = match_known(f, self._known)
        if ent is None:
            raise Violation(prop, oracle, msg, disc)
        self.probes["known:" + ent["id"]] += 1

    # hooks
    def draw_config(self, st: Streams, idx: int) -> dict:  # pragma: no cover
        raise NotImplementedError

    def reset(self, cfg: dict) -> None:  # pragma: no cover
        raise NotImplementedError

    def next_op(self, st: Streams) -> dict:  # pragma: no cover
        raise NotImplementedError

    def apply(self, op: dict) -> str:  # pragma: no cover
        raise NotImplementedError

    def state_hash(self) -> str:
        return ""

    def finish(self) -> None:
        """History oracles at the end of a run."""

    def teardown(self) -> None:
        """Undo seams."""

    def nontrivial(self) -> bool:
        return True



# ------------------------------------------------------------------ run / replay


def canon(obj) -> str:
    return json.dumps(obj, sort_keys=True, separators=(",", ":"), default=str)


class RunResult(dict):
    """Plain dict (picklable): ok, digest, ops, cfg, failure, probes, faults, ophist, ..."""


def _execute(machine: Machine, cfg: dict, ops_iter, gen_mode: bool, st: Streams | None):
    """Common path of a generated run and of a replay."""
    events = []
    ops = []
    failure = None
    steps = 0
    state_hashes = []
    gc.disable()
    old = signal.signal(signal.SIGALRM, _alarm)
    signal.setitimer(signal.ITIMER_REAL, RUN_WALL_S)
    try:
        machine.reset(cfg)
        n = cfg.get("steps", 0) if gen_mode else None
        i = 0
        while True:
            if gen_mode:
                if i >= n:
                    break
                op = machine.next_op(st)
            else:
                try:
                    op = next(ops_iter)
                except StopIteration:
                    break
            op = json.loads(canon(op))  # literal, JSON-clean, detached from generator state
            ops.append(op)
            machine.ophist[op["op"]] += 1
            try:
                out = machine.apply(op)
            except Violation as v:
                failure = dict(
                    step=i, prop=v.prop, oracle=v.oracle, msg=v.msg, disc=v.disc, op=op["op"]
                )
                events.append([i, op, "VIOLATION:" + v.oracle])
                break
            sh = machine.state_hash()
            state_hashes.append(sh)
            events.append([i, op, out, sh])
            steps += 1
            i += 1
        if failure is None:
            try:
                machine.finish()
            except Violation as v:
                failure = dict(
                    step=i, prop=v.prop, oracle=v.oracle, msg=v.msg, disc=v.disc, op="finish"
                )
                events.append([i, {"op": "finish"}, "VIOLATION:" + v.oracle])
    finally:
        signal.setitimer(signal.ITIMER_REAL, 0)
        signal.signal(signal.SIGALRM, old)
        try:
            machine.teardown()
        finally:
            gc.enable()
    digest = hashlib.sha256(canon(events).encode()).hexdigest()
    return RunResult(
        ok=failure is None,
        failure=failure,
        digest=digest,
        ops=ops,
        cfg=cfg,
        steps=steps,
        probes=dict(machine.probes),
        faults=dict(machine.faults),
        ophist=dict(machine.ophist),
        end_state=state_hashes[-1] if state_hashes else "",
        states=sorted(set(state_hashes)),
        nontrivial=machine.nontrivial(),
    )


def isolated(fn, *args):
    """Run fn(*args) in a forked child and return its (picklable) result.

    Every simulated run starts from the same pristine interpreter state (modules imported, no
    library code executed yet), so process-global state of the SUT - module-level caches,
    counters in closures - cannot leak from one run into the next, and a replay in a fresh
    interpreter sees exactly what the run saw.
    """
    import pickle

    rfd, wfd = os.pipe()
    pid = os.fork()
    if pid == 0:
        code = 0
        try:
            os.close(rfd)
            try:
                res = fn(*args)
            except HarnessTimeout:
                res = RunResult(ok=False, harness="timeout", failure=None)
            except BaseException:  # noqa
                res = RunResult(ok=False, harness=traceback.format_exc(), failure=None)
            data = pickle.dumps(res)
            with os.fdopen(wfd, "wb") as fh:
                fh.write(data)
        except BaseException:  # noqa
            code = 3
        finally:
            os._exit(code)
    os.close(wfd)
    chunks = []
    with os.fdopen(rfd, "rb") as fh:
        while True:
            b = fh.read(1 << 20)
            if not b:
                break
            chunks.append(b)
    os.waitpid(pid, 0)
    if not chunks:
        return RunResult(ok=False, harness="child died without a result", failure=None)
    return pickle.loads(b"".join(chunks))


def generate_run(machine_cls, prop: str, tier: str, verif_seed: int, idx: int) -> RunResult:
    res = isolated(_generate_run, machine_cls, prop, tier, verif_seed, idx)
    res.setdefault("idx", idx)
    return res


def replay_ops(machine_cls, prop: str, tier: str, cfg: dict, ops: list) -> RunResult:
    return isolated(_replay_ops, machine_cls, prop, tier, cfg, ops)


def _generate_run(machine_cls, prop: str, tier: str, verif_seed: int, idx: int) -> RunResult:
    seed = run_seed(verif_seed, prop, idx)
    st = Streams(seed)
    m = machine_cls(prop, tier)
    cfg = m.draw_config(st, idx)
    cfg = json.loads(canon(cfg))
    res = _execute(m, cfg, None, True, st)
    res["seed"] = seed
    res["idx"] = idx
    return res


def _replay_ops(machine_cls, prop: str, tier: str, cfg: dict, ops: list) -> RunResult:
    m = machine_cls(prop, tier)
    return _execute(m, cfg, iter(ops), False, None)


# ------------------------------------------------------------------ shrinking


def same_class(f1: dict | None, f2: dict | None) -> bool:
    if not f1 or not f2:
        return False
    return (f1["prop"], f1["oracle"], f1["op"]) == (f2["prop"], f2["oracle"], f2["op"]) and f1.get(
        "disc"
    ) == f2.get("disc")


def shrink(machine_cls, prop: str, tier: str, cfg: dict, ops: list, failure: dict, budget_s=90.0):
    """ddmin over steps, then element-wise shrinking of list arguments, then fault removal."""
    t0 = time.time()
    ops = ops[: failure["step"] + 1] if failure["op"] != "finish" else list(ops)
    best = ops

    def fails(cand):
        if time.time() - t0 > budget_s:
            return False
        try:
            r = replay_ops(machine_cls, prop, tier, cfg, cand)
        except Exception:  # a candidate that breaks the harness is not a reproduction
            return False
        return same_class(r.get("failure"), failure)

    # ddmin
    n = 2
    while len(best) >= 2 and time.time() - t0 < budget_s:
        chunk = max(1, len(best) // n)
        reduced = False
        for start in range(0, len(best), chunk):
            cand = best[:start] + best[start + chunk :]
            if cand and fails(cand):
                best = cand
                n = max(n - 1, 2)
                reduced = True
                break
        if not reduced:
            if chunk == 1:
                break
            n = min(len(best), n * 2)

    # argument shrinking: drop elements of list-valued args, drop fault schedules
    changed = True
    while changed and time.time() - t0 < budget_s:
        changed = False
        for i, op in enumerate(best):
            for key, val in list(op.items()):
                if key == "memo" and val:
                    cand_op = dict(op)
                    cand_op["memo"] = []
                    cand = best[:i] + [cand_op] + best[i + 1 :]
                    if fails(cand):
                        best = cand
                        op = cand_op
                        changed = True
                    continue
                if isinstance(val, list) and len(val) > 1 and key in ("lines", "ops_enabled"):
                    j = 0
                    while j < len(op[key]) and len(op[key]) > 1:
                        cand_op = dict(op)
                        cand_op[key] = op[key][:j] + op[key][j + 1 :]
                        cand = best[:i] + [cand_op] + best[i + 1 :]
                        if fails(cand):
                            best = cand
                            op = cand_op
                            changed = True
                        else:
                            j += 1
    # one more step-removal pass
    i = 0
    while i < len(best) and len(best) > 1 and time.time() - t0 < budget_s:
        cand = best[:i] + best[i + 1 :]
        if fails(cand):
            best = cand
        else:
            i += 1
    return best


# ------------------------------------------------------------------ known findings


def load_known():
    path = os.path.join(VERIF_DIR, "known_findings.json")
    if not os.path.exists(path):
        return []
    with open(path) as fh:
        return json.load(fh)["findings"]


def match_known(failure: dict, known: list):
    """Return the open entry whose signature matches the failure, else None."""
    for ent in known:
        if ent.get("status") != "open":
            continue
        if ent["property"] != failure["prop"]:
            continue
        sig = ent["signature"]
        if sig["oracle"] != failure["oracle"]:
            continue
        if "op" in sig and failure["op"] not in sig["op"].split("|"):
            continue
        disc = failure.get("disc") or {}
        if all(disc.get(k) == v for k, v in sig.get("disc", {}).items()):
            return ent
    return None


# ------------------------------------------------------------------ batches


def _worker(args):
    machine_cls, prop, tier, verif_seed, idxs = args
    faulthandler.enable()
    out = []
    for idx in idxs:
        r = generate_run(machine_cls, prop, tier, verif_seed, idx)
        r["idx"] = idx
        if r.get("ok") or r.get("harness"):
            # keep results small: ops only for a few sample runs
            if idx % 97 != 0:
                r.pop("ops", None)
        out.append(r)
    return out


def run_batch(machine_cls, prop, tier, verif_seed, idxs, workers):
    idxs = list(idxs)
    if not idxs:
        return []
    chunk = max(1, min(8, len(idxs) // (workers * 2) or 1))
    tasks = [
        (machine_cls, prop, tier, verif_seed, idxs[i : i + chunk])
        for i in range(0, len(idxs), chunk)
    ]
    results = []
    if workers <= 1:
        for t in tasks:
            results.extend(_worker(t))
    else:
        ctx = multiprocessing.get_context("fork")
        with ProcessPoolExecutor(max_workers=workers, mp_context=ctx) as ex:
            for part in ex.map(_worker, tasks):
                results.extend(part)
    results.sort(key=lambda r: r["idx"])
    return results


# ------------------------------------------------------------------ check driver


class HarnessError(Exception):
    pass


def write_replay(prop, machine_cls, tier, res, ops_min, verif_seed, n) -> str:
    outdir = os.path.join(VERIF_DIR, "out", prop)
    os.makedirs(outdir, exist_ok=True)
    hs = os.environ.get("PYTHONHASHSEED", "0")
    tag = "" if hs == "0" else f"-hs{hs}"
    path = os.path.join(outdir, f"violation-{verif_seed}-{res.get('idx', 'c')}-{n}{tag}.json")
    try:
        head = subprocess.run(
            ["git", "-C", os.environ.get("VERIF_REPO", "/repo"), "rev-parse", "HEAD"],
            capture_output=True,
            text=True,
            timeout=20,
        ).stdout.strip()
    except Exception:
        head = "unknown"
    doc = dict(
        property=prop,
        oracle=res["failure"]["oracle"],
        failure=res["failure"],
        seed=res.get("seed"),
        verif_seed=verif_seed,
        run_index=res.get("idx"),
        machine=machine_cls.name,
        tier=tier,
        config=res["cfg"],
        ops=ops_min,
        minimised_from=len(res["ops"]),
        repo_head=head,
        python=sys.version.split()[0],
        hashseed=os.environ.get("PYTHONHASHSEED", "0"),
    )
    with open(path, "w") as fh:
        json.dump(doc, fh, indent=1, sort_keys=True)
    return path


def replay_file_fresh(path: str) -> tuple[int, str]:
    """Replay in a fresh interpreter; returns (exit code, stdout)."""
    env = dict(os.environ)
    try:
        with open(path) as fh:
            env["PYTHONHASHSEED"] = str(json.load(fh).get("hashseed", "0"))
    except (OSError, ValueError):
        env["PYTHONHASHSEED"] = "0"
    p = subprocess.run(
        [sys.executable, os.path.join(VERIF_DIR, "check.py"), "replay", path],
        capture_output=True,
        text=True,
        env=env,
        timeout=600,
    )
    return p.returncode, p.stdout + p.stderr


def merge_counts(results, key):
    tot: Counter = Counter()
    for r in results:
        for k, v in (r.get(key) or {}).items():
            tot[k] += v
    return dict(sorted(tot.items()))
