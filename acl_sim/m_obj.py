"""M-OBJ: copy()/data() rebuild, aliasing, mutate-one-observe-other, uuid/note stability (C16)."""

from __future__ import annotations

import copy as copy_mod
from ipaddress import IPv4Address, IPv4Network

from cisco_acl import (Ace, AceGroup, Acl, AddrGroup, Address, AddressAg, Option, Port, Protocol,
                       Remark, Wildcard)
from netports import SwVersion

from . import gen
from .aclobs import leaves, norm
from .aclref import needs_split
from .core import Machine, Streams, Violation
from .model import Reader, ReadError
from .seams import SimIds, SimLog, SimMemo

DOCUMENTED = (ValueError, TypeError)
CLASSES = {"Wildcard": Wildcard, "Address": Address, "AddressAg": AddressAg,
           "AddrGroup": AddrGroup, "Port": Port, "Protocol": Protocol, "Option": Option,
           "Remark": Remark, "Ace": Ace, "AceGroup": AceGroup, "Acl": Acl}
IMMUTABLE = (str, int, float, bool, type(None), IPv4Network, IPv4Address, SwVersion, bytes)
HAS_EQ = {"Address", "AddressAg", "AddrGroup", "Port", "Protocol", "Option", "Remark", "Ace",
          "AceGroup", "Acl"}
NOTES = ["", "n1", ["list", "note"], {"k": ["v"]}, ["x", {"y": 1}], 0, [], {}, False]
# notes for the parts of an entry (falsy values are legal notes too)
SUBNOTES = [{"sub": "src"}, 0, [], {}, False, "s", 0.0]


def walk_mutable(obj, seen=None, path="", out=None):
    """All mutable nodes reachable from obj: id -> path."""
    if out is None:
        out, seen = {}, set()
    if isinstance(obj, IMMUTABLE) or id(obj) in seen:
        return out
    seen.add(id(obj))
    if isinstance(obj, (list, set, dict)) or hasattr(obj, "__dict__"):
        out[id(obj)] = path
    if isinstance(obj, dict):
        for k, v in obj.items():
            walk_mutable(v, seen, f"{path}[{k!r}]", out)
    elif isinstance(obj, (list, tuple, set, frozenset)):
        for i, v in enumerate(obj):
            walk_mutable(v, seen, f"{path}[{i}]", out)
    elif hasattr(obj, "__dict__"):
        for k, v in vars(obj).items():
            walk_mutable(v, seen, f"{path}.{k}", out)
    return out


def note_ids(obj, out=None, seen=None):
    """ids of every user note object (and its sub-structure) attached anywhere in the graph."""
    if out is None:
        out, seen = set(), set()
    if isinstance(obj, IMMUTABLE) or id(obj) in seen:
        return out
    seen.add(id(obj))
    if hasattr(obj, "__dict__"):
        for k, v in vars(obj).items():
            if k == "note":
                out.update(walk_mutable(v).keys())
            else:
                note_ids(v, out, seen)
    elif isinstance(obj, dict):
        for v in obj.values():
            note_ids(v, out, seen)
    elif isinstance(obj, (list, tuple, set)):
        for v in obj:
            note_ids(v, out, seen)
    return out


def snapshot(obj):
    return obj.line, norm(obj.data())


class ObjMachine(Machine):
    name = "M-OBJ"
    PROPS = ("C16",)
    QUICK_RUNS = {"C16": 4000}
    THOROUGH_BUDGET_S = 600
    RULE = (
        "one evaluation = one seeded history (<= 12 ops) on <= 3 live objects of the eleven "
        "exported classes: copy() / Cls(**data()) followed by a public mutation of one side and "
        "observation of the other, exact object-graph aliasing walk per pair, and in-place "
        "transformations (platform, type, switches, resequence, sort, group, ungroup) with a "
        "uuid/note map at four levels under a deterministic id source; distinct = distinct "
        "sequence of (class, op kinds, abstract text hash); non-trivial = >= 1 copy pair mutated "
        "and observed or >= 1 transformation checked"
    )
    COMPONENTS = {
        "real": ["cisco_acl (all exported classes, from /repo)", "netports", "ipaddress"],
        "stub": ["uuid1 -> SimIds (logical counter: makes 'a fresh id appeared' exact and "
                 "replayable)"],
    }
    ASSUMPTIONS = [
        "immutable leaves (str, int, IPv4Network, IPv4Address, SwVersion) are exempt from the "
        "aliasing walk; the user note object may be shared by design",
        "writing into the dict returned by data() is not judged (the statement is about the "
        "rebuilt object); it is only counted",
        "Wildcard defines no equality: 'equal object' is judged by line and data() there",
    ]

    def __init__(self, prop, tier="quick"):
        super().__init__(prop, tier)
        self.ids = SimIds()
        self.memo = SimMemo()
        self.log = SimLog()
        self.slots = []
        self.did = 0
        self.trace = []

    def draw_config(self, st: Streams, idx: int) -> dict:
        w = st.w
        return dict(
            steps=w.randint(2, 30 if self.tier == "thorough" else 12),
            platform=w.choice(["ios", "ios", "nxos"]),
            names=w.random() < 0.5, numbered=w.choice(["none", "all"]),
            p_group=0.2, p_ncw=0.1, p_multi=0.4, p_related=0.3, p_heading=0.2, p_remark=0.1,
            max_lines=w.choice([3, 6, 10] if self.tier == "thorough" else [3, 6]), p_flags=0.2,
            p_log=0.2,
            group_by=gen.HEAD if w.random() < 0.4 else "",
            log_level=w.choice(["DEBUG", "WARNING"]),
        )

    def reset(self, cfg):
        self.cfg = cfg
        self.ids.install()
        self.memo.install()
        self.log.install(cfg.get("log_level", "DEBUG"))
        self.slots = []

    def teardown(self):
        self.slots = []
        self.log.uninstall()
        self.memo.uninstall()
        self.ids.uninstall()

    def nontrivial(self):
        return self.did >= 1

    def state_hash(self):
        import hashlib
        return hashlib.sha1(repr(self.trace).encode()).hexdigest()[:16]

    # ------------------------------------------------------------- generation
    def _gen_new(self, w):
        cfg = self.cfg
        plat = cfg["platform"]
        cls = w.choice(["Acl", "Acl", "Acl", "Ace", "Ace", "AceGroup", "AddrGroup", "Address",
                        "AddressAg", "Port", "Protocol", "Option", "Remark", "Wildcard"])
        kw = dict(platform=plat)
        members = {}
        if cls == "Acl":
            lines, _ = gen.gen_acl_lines(w, cfg, plat, "0")
            line = "\n".join([gen.header(plat, "extended", "N1")] + ["  " + ln for ln in lines])
            kw.update(group_by=cfg["group_by"], input=["interface Eth1"], indent="  ")
            for g in gen.GROUP_NAMES:
                members[g] = gen.gen_members(w, plat, w.randint(1, 3))
        elif cls == "AceGroup":
            lines, _ = gen.gen_acl_lines(w, dict(cfg, p_heading=0.0), plat, "0")
            line = "\n".join(lines)
        elif cls == "Ace":
            line = gen.render_ace(gen.gen_ace(w, cfg, plat), plat, "0", w.choice([0, 10]),
                                  cfg["names"])
            for g in gen.GROUP_NAMES:
                members[g] = gen.gen_members(w, plat, w.randint(1, 3))
        elif cls == "Remark":
            line = f"{w.choice(['', '10 '])}remark {w.choice(gen.REMARK_WORDS)}"
        elif cls == "Address":
            a = gen.gen_addr(w, cfg)
            line = gen.render_addr(a, plat)
            if a[0] == "group":
                members[a[1]] = gen.gen_members(w, plat, w.randint(1, 3))
        elif cls in ("AddressAg", "AddrGroup"):
            from .m_acl import AclMachine
            mem = AclMachine._ag_member_lines(w, plat, 1 if cls == "AddressAg" else w.randint(1, 4),
                                              allow_ncw=False)
            if cls == "AddressAg":
                line = mem[0][0]
            else:
                head = "object-group ip address G" if plat == "nxos" else "object-group network G"
                line = "\n".join([head] + ["  " + x[0] for x in mem])
        elif cls == "Port":
            p = gen.gen_port(w, dict(cfg, p_multi=0.5), plat) or ("eq", (80,))
            line = gen.render_port(p, plat, "0", 6, cfg["names"])
            kw.update(protocol="tcp")
        elif cls == "Protocol":
            line = gen.render_proto(w.choice(gen.PROTOS), plat, cfg["names"])
        elif cls == "Option":
            line = w.choice(["", "log", "ack", "syn ack log", "established", "fin log-input"])
        else:
            mask = w.choice([0, 3, 255, 0x0503, 0xFFFFFFFF, 0x00010100])
            line = f"{gen.ip(gen._base(w) & ~mask & 0xFFFFFFFF)} {gen.ip(mask)}"
        # rarely used keyword arguments (a rebuild has to carry every one of them)
        if cls in ("Acl", "AceGroup", "Ace", "Address", "AddressAg", "AddrGroup", "Wildcard") \
                and w.random() < 0.3:
            kw["max_ncwb"] = w.choice([8, 20, 24, 30])
        if cls in ("Acl", "AceGroup", "Ace") and w.random() < 0.3:
            kw["port_nr"] = w.random() < 0.5
            kw["protocol_nr"] = w.random() < 0.5
        if cls == "Acl" and w.random() < 0.3:
            kw["indent"] = w.choice([" ", "    ", ""])
            kw["output"] = ["interface Eth2", "interface Eth3"]
        return dict(op="obj_new", cls=cls, line=line, kw=kw, members=members,
                    note=w.randrange(len(NOTES)), subnote=w.random() < 0.5,
                    nest=cls == "Address" and w.random() < 0.4)

    def _gen_cfg(self, w):
        cfg = self.cfg
        plat = cfg["platform"]
        gcfg = dict(cfg, p_group=0.5, p_heading=0.0)
        acls_ = []
        for name in ("CF1", "CF2"):
            lines, _ = gen.gen_acl_lines(w, gcfg, plat, "0")
            grp = w.choice(gen.GROUP_NAMES[:2])
            lines.append(("permit ip addrgroup " if plat == "nxos" else "permit ip object-group ")
                         + grp + " any")
            acls_.append(dict(name=name, lines=lines))
        groups = {}
        for g in gen.GROUP_NAMES:
            mem = []
            for _ in range(w.randint(1, 3)):
                k = w.choice([0, 2, 8])
                mask = (1 << k) - 1
                mem.append([gen._base(w) & ~mask & 0xFFFFFFFF, mask])
            groups[g] = mem
        return dict(op="cfg_new", platform=plat, acls=acls_, groups=groups)

    def next_op(self, st: Streams) -> dict:
        w, s = st.w, st.s
        if not self.slots and s.random() < 0.15:
            return self._gen_cfg(w)
        if not self.slots or (len(self.slots) < 3 and s.random() < 0.25):
            return self._gen_new(w)
        t = s.randrange(len(self.slots))
        r = s.random()
        if r < 0.5:
            return dict(op="copy_check", t=t, how=s.choice(["copy", "data", "data_uuid"]),
                        side=s.choice(["copy", "copy", "source"]), mut=s.randint(0, 99),
                        arg=s.randint(0, 99))
        if r < 0.6:
            return dict(op="retitle", t=t, arg=s.randint(0, 99))
        if r < 0.68:
            return dict(op="interleave", t=t, arg=s.randint(0, 99))
        if r < 0.72:
            return dict(op="insert_regroup", t=t, arg=s.randint(0, 99))
        kind = s.choice(["platform", "platform", "port_nr", "protocol_nr", "type", "resequence",
                         "sort", "group", "ungroup", "platform_same", "type_std", "group_coarse"])
        return dict(op="transform", t=t, kind=kind, arg=s.randint(0, 99))

    # ------------------------------------------------------------- apply
    def _fail(self, oracle, msg, **disc):
        raise Violation("C16", oracle, msg, disc)

    def _slot(self, t):
        if not self.slots:
            return None
        return self.slots[t % len(self.slots)]

    def apply(self, op: dict) -> str:
        self._cur_op = op["op"]
        try:
            out = getattr(self, "_op_" + op["op"])(op)
            self._check_unique_ids()
            return out
        finally:
            self.log.take()

    def _check_unique_ids(self):
        """Within one live object every part has its own identifier."""
        for slot in self.slots:
            obj, cname = slot["obj"], slot["cls"]
            if cname not in ("Acl", "AceGroup", "AddrGroup", "Ace"):
                continue
            ids = [obj.uuid]
            if cname == "Acl":
                for it in obj.items:
                    ids.append(it.uuid)
                    if isinstance(it, AceGroup):
                        ids.extend(x.uuid for x in it.items)
            elif cname in ("AceGroup", "AddrGroup"):
                ids.extend(x.uuid for x in obj.items)
            for ace in self._aces(obj):
                ids.extend(getattr(ace, nm).uuid for nm in
                           ("protocol", "srcaddr", "srcport", "dstaddr", "dstport", "option"))
            if len(ids) != len(set(ids)) and not slot.get("dup_items"):
                dup = [u for u in set(ids) if ids.count(u) > 1][0]
                self._fail("C16.identifier-collision",
                           f"{cname}: two different parts of one object carry the identifier "
                           f"{dup[-6:]} after {self._cur_op}", cls=cname)

    def _op_cfg_new(self, op):
        """Two ACLs from one cisco_acl.acls(config) call that reference the same address groups:
        distinct objects, no shared mutable state."""
        import cisco_acl
        plat = op["platform"]
        parts = []
        for g, mem in op["groups"].items():
            parts.append(("object-group ip address " if plat == "nxos"
                          else "object-group network ") + g)
            for base, mask in mem:
                if mask == 0:
                    parts.append(f" host {gen.ip(base)}")
                elif plat == "nxos":
                    parts.append(f" {gen.ip(base)}/{gen.plen(mask)}")
                else:
                    parts.append(f" {gen.ip(base)} {gen.ip(~mask & 0xFFFFFFFF)}")
        for a in op["acls"]:
            parts.append(gen.header(plat, "extended", a["name"]))
            parts.extend(" " + ln for ln in a["lines"])
        try:
            objs = cisco_acl.acls("\n".join(parts), platform=plat)
        except DOCUMENTED:
            return "rejected"
        if len(objs) < 2:
            return "noop"
        self.slots = [dict(cls="Acl", obj=o, from_cfg=True) for o in objs[:2]]
        ga, gb = walk_mutable(objs[0]), walk_mutable(objs[1])
        bad = (set(ga) & set(gb)) - note_ids(objs[0])
        if bad:
            b = next(iter(bad))
            self._fail("C16.aliasing", f"two ACLs returned by one acls(config) call share mutable "
                                       f"state at {ga[b]}", cls="Acl", between="acls(config)")
        self.did += 1
        self.probes["acls_from_config"] += 1
        self.trace.append(("cfg",))
        return "ok"

    def _op_interleave(self, op):
        """The same operations on a source and on its copy, interleaved, must leave the source
        as an isolated control (a second copy treated alone) ends up."""
        slot = self._slot(op["t"])
        if slot is None or slot["cls"] != "Acl":
            return "noop"
        x = slot["obj"]
        try:
            control, c = x.copy(), x.copy()
        except DOCUMENTED:
            return "noop"
        if snapshot(control) != snapshot(x):
            return "noop"  # judged by copy_check
        # make the copy differ in what a text cannot show
        for i, it in enumerate(c.items):
            it.note = f"copy-{i}"
        steps = {0: ["ungroup", "group"], 1: ["ungroup", "platform", "group"],
                 2: ["resequence", "ungroup", "group", "sort"],
                 3: ["group", "port_nr", "ungroup", "group"]}[op["arg"] % 4]
        import gc as _gc

        def do(o, st):
            if st == "ungroup":
                o.ungroup()
            elif st == "group":
                o.group(gen.HEAD)
            elif st == "platform":
                o.platform = o.platform
            elif st == "resequence":
                o.resequence(10, 10)
            elif st == "sort":
                o.sort()
            elif st == "port_nr":
                o.port_nr = not o.port_nr

        try:
            for st in steps:
                if st == "resequence" and any(isinstance(it, AceGroup) and not it.items
                                              for it in x.items):
                    return "noop"
                do(x, st)
                do(c, st)
                if op["arg"] % 3 == 0:
                    _gc.collect()
                do(control, st)
        except DOCUMENTED:
            self.slots.remove(slot)
            return "aborted"
        except TypeError:
            self.slots.remove(slot)
            return "aborted"
        a, b = snapshot(x), snapshot(control)
        if a != b:
            from .m_acl import AclMachine
            self._fail("C16.interleave",
                       f"operations {steps} interleaved on a source and its copy leave the source "
                       f"different from an isolated control: "
                       f"{AclMachine._dict_diff(b[1], a[1]) if a[0] == b[0] else 'text differs'}",
                       cls="Acl")
        self.did += 1
        self.probes["interleavings"] += 1
        self.trace.append(("interleave", tuple(steps)))
        return "ok"

    def _op_obj_new(self, op):
        cls = CLASSES[op["cls"]]
        kw = dict(op["kw"])
        note = copy_mod.deepcopy(NOTES[op["note"]])
        try:
            obj = cls(op["line"], note=note, **kw)
        except DOCUMENTED:
            return "rejected"
        # attach members and notes below the root (the note is the one thing a copy may share)
        for leaf in self._aces(obj):
            for addr in (leaf.srcaddr, leaf.dstaddr):
                if addr.type == "addrgroup" and addr.addrgroup in op["members"]:
                    addr.items = list(op["members"][addr.addrgroup])
            if op["subnote"]:
                leaf.note = ["leaf-note", leaf.line[:10]]
                if isinstance(leaf, Ace):
                    k_ = op["note"]
                    leaf.srcaddr.note = copy_mod.deepcopy(SUBNOTES[k_ % len(SUBNOTES)])
                    leaf.dstport.note = copy_mod.deepcopy(SUBNOTES[(k_ + 1) % len(SUBNOTES)])
                    leaf.option.note = copy_mod.deepcopy(SUBNOTES[(k_ + 2) % len(SUBNOTES)])
                    leaf.protocol.note = copy_mod.deepcopy(SUBNOTES[(k_ + 3) % len(SUBNOTES)])
        if op["cls"] == "Address" and obj.type == "addrgroup" and obj.addrgroup in op["members"]:
            obj.items = list(op["members"][obj.addrgroup])
            if op.get("nest") and obj.items:
                # a member that is a group with members of its own (export / rebuild carry it)
                inner = Address(("addrgroup " if obj.platform == "nxos" else "object-group ")
                                + "INNER", platform=obj.platform, note=["inner"],
                                items=list(op["members"][obj.addrgroup]))
                obj.items = [inner, *obj.items]
                self.probes["nested_group_member"] += 1
        if op["cls"] == "AddrGroup" and op["subnote"]:
            for it in obj.items:
                it.note = ["member"]
        if op["cls"] in ("Acl",) and op["subnote"]:
            for it in obj.items:
                if isinstance(it, AceGroup):
                    it.note = ["group-note"]
        slot = dict(cls=op["cls"], obj=obj)
        if len(self.slots) < 3:
            self.slots.append(slot)
        else:
            self.slots[0] = slot
        self.trace.append(("new", op["cls"]))
        return "ok"

    @staticmethod
    def _aces(obj):
        if isinstance(obj, Ace):
            return [obj]
        if isinstance(obj, Acl):
            return [x for x in leaves(obj) if isinstance(x, Ace)]
        if isinstance(obj, AceGroup):
            return [x for x in obj.items if isinstance(x, Ace)]
        return []

    # ---- copy / rebuild
    def _op_copy_check(self, op):
        slot = self._slot(op["t"])
        if slot is None:
            return "noop"
        x = slot["obj"]
        cname = slot["cls"]
        cls = CLASSES[cname]
        try:
            if op["how"] == "copy":
                c = x.copy()
            elif op["how"] == "data_uuid":
                c = cls(**x.data(uuid=True))  # what the library's own setters do
            else:
                c = cls(**x.data())
        except DOCUMENTED as ex:
            self._fail("C16.rebuild-raises", f"{cname}.{op['how']} raised {type(ex).__name__}: "
                                             f"{ex} for {x.line!r}", cls=cname)
        # equal rebuild
        if c.line != x.line:
            self._fail("C16.equal-text", f"{cname} {op['how']}: text differs\n{x.line}\n---\n"
                                         f"{c.line}", cls=cname)
        dx, dc = norm(x.data()), norm(c.data())
        if slot.get("stale_names"):
            # AceGroup.name is a snapshot of the heading text; after the heading was edited
            # without the name, a rebuild legitimately re-derives it: that one field is exempt
            for d in (dx, dc):
                for it in d.get("items", []):
                    if isinstance(it, dict) and isinstance(it.get("items"), list):
                        it.pop("name", None)
        if dc != dx:
            from .m_acl import AclMachine
            diff = AclMachine._dict_diff(dx, dc)
            if cname == "Acl" and getattr(x, "group_by", "") and diff.startswith(".items: len") \
                    and c.line == x.line:
                # block structure differs although the text is identical
                self.soft_fail("C16", "C16.equal-data", f"Acl {op['how']}: same text, other block "
                               f"structure: {diff}", cls=cname, diff_kind="toplevel-structure")
                self.trace.append(("copy-structure",))
                return "known"
            self._fail("C16.equal-data", f"{cname} {op['how']}: data() differs: {diff}",
                       cls=cname)
        if cname in HAS_EQ and not (c == x):
            self._fail("C16.equal-eq", f"{cname} {op['how']}: copy != source", cls=cname)
        if c.uuid == x.uuid and op["how"] == "copy":
            self.probes["copy_same_uuid"] += 1
        # structural independence (exact)
        gx, gc = walk_mutable(x), walk_mutable(c)
        shared = set(gx) & set(gc)
        allowed = note_ids(x)
        bad = shared - allowed
        if bad:
            b = next(iter(bad))
            self._fail("C16.aliasing", f"{cname} {op['how']}: copy and source share mutable state "
                                       f"at source{gx[b]} / copy{gc[b]}", cls=cname)
        # two rebuilds of one source must not share state with each other either
        try:
            c2 = cls(**x.data(uuid=True)) if op["how"] == "data_uuid" else (
                x.copy() if op["how"] == "data" else cls(**x.data()))
            g2 = walk_mutable(c2)
            bad2 = (set(gc) & set(g2)) - allowed
            if bad2:
                b = next(iter(bad2))
                self._fail("C16.aliasing", f"{cname}: two rebuilds of one source share mutable "
                                           f"state at {gc[b]}", cls=cname, between="copies")
        except DOCUMENTED:
            pass
        self.probes["pairs_walked"] += 1
        if shared:
            self.probes["shared_note_objects"] += 1
        # behavioural independence: mutate one side, observe the other
        mutated, other = (c, x) if op["side"] == "copy" else (x, c)
        before = snapshot(other)
        before_mut = snapshot(mutated)
        try:
            what = self._mutate(mutated, cname, op["mut"], op["arg"])
        except DOCUMENTED:
            what = "mutation-rejected"
        after = snapshot(other)
        if before != after:
            self._fail("C16.independence", f"{cname} {op['how']}: mutating the {op['side']} "
                                           f"({what}) changed the other object:\n{before[0]}\n---\n"
                                           f"{after[0]}", cls=cname, mutation=what)
        raw = what in ("flags.append", "logs.append", "option.flags.append",
                       "srcport.items.append", "items.append:port", "ports.append",
                       "input.append")
        if cname == "Acl" and getattr(mutated, "group_by", "") and what in (
                "items.append", "items.pop", "items.reverse"):
            raw = True  # loose entries next to groups: structure no longer follows group_by
        if cname == "AceGroup" and not mutated.items:
            raw = True  # an emptied group keeps a number no constructor can give it: not judged
        if cname in ("Acl", "AceGroup", "Ace") and what in ("ace.dstport.line", "dstport.line"):
            raw = True  # a port edited without its entry: protocol.has_port is the entry's job
        if snapshot(mutated) != before_mut:
            self.probes["effective_mutations"] += 1
        if snapshot(mutated) != before_mut and not raw:
            # a rebuild taken *after* the edit must equal the edited object as well (scribbling
            # into a raw list view leaves text and views out of step by the caller's own doing:
            # such objects only serve the independence test and are dropped)
            try:
                c3 = mutated.copy()
            except DOCUMENTED:
                c3 = None  # the edit made the object unbuildable (e.g. multi-port on nxos)
            if c3 is not None:
                if c3.line != mutated.line:
                    self._fail("C16.equal-text", f"{cname}: copy after {what} renders "
                                                 f"{c3.line!r}, source {mutated.line!r}",
                               cls=cname, after_edit=True)
                if cname in HAS_EQ and not (c3 == mutated):
                    self._fail("C16.equal-eq", f"{cname}: copy taken after {what} is not equal "
                                               f"to its source although the texts agree",
                               cls=cname, after_edit=True)
        self.did += 1
        self.trace.append(("copy", cname, op["how"], what))
        if what == "mutation-rejected":
            slot["obj"] = x if op["side"] == "copy" else other
        elif op["arg"] % 2 == 0 and not raw:
            slot["obj"] = mutated  # histories continue from edited objects half of the time
        else:
            slot["obj"] = other
        return "ok"

    def _mutate(self, o, cname, k, arg):
        """A public mutator chosen by index; returns its name."""
        acts = []
        if cname in ("Acl", "AceGroup"):
            acts += [
                ("items.pop", lambda: o.items.pop() if o.items else None),
                ("items.append", lambda: o.items.append(Remark("remark added",
                                                               platform=o.platform))),
                ("items.reverse", lambda: o.items.reverse()),
                ("leaf.sequence", lambda: self._leaf(o, arg) and setattr(self._leaf(o, arg),
                                                                          "sequence", 7 + arg)),
                ("leaf.note", lambda: self._leaf(o, arg) and setattr(self._leaf(o, arg), "note",
                                                                      "changed")),
                ("resequence", lambda: o.resequence(5, 5) if o.items else None),
                ("ace.members.append", lambda: self._members_append(o, arg)),
                ("ace.srcaddr.line", lambda: self._ace_addr_line(o, arg)),
                ("ace.dstport.line", lambda: self._ace_port_line(o, arg)),
                ("ace.option.line", lambda: self._ace_opt_line(o, arg)),
                ("port_nr", lambda: setattr(o, "port_nr", not o.port_nr)),
            ]
            if cname == "Acl":
                acts += [("input.append", lambda: o.input.append("interface X")),
                         ("name", lambda: setattr(o, "name", "RENAMED")),
                         ("indent", lambda: setattr(o, "indent", "      ")),
                         ("group", lambda: o.group(gen.HEAD)),
                         ("ungroup", lambda: o.ungroup()),
                         ("output", lambda: setattr(o, "output", ["interface Y"]))]
        elif cname == "Ace":
            acts += [("sequence", lambda: setattr(o, "sequence", 3 + arg)),
                     ("members.append", lambda: self._members_append(o, arg)),
                     ("srcaddr.line", lambda: self._ace_addr_line(o, arg)),
                     ("dstport.line", lambda: self._ace_port_line(o, arg)),
                     ("option.line", lambda: self._ace_opt_line(o, arg)),
                     ("option.flags.append", lambda: o.option.flags.append("urg")),
                     ("srcport.items.append", lambda: o.srcport.items.append(4444)),
                     ("protocol_nr", lambda: setattr(o, "protocol_nr", not o.protocol_nr))]
        elif cname == "Remark":
            acts += [("text", lambda: setattr(o, "text", "other text")),
                     ("sequence", lambda: setattr(o, "sequence", 9))]
        elif cname in ("Address", "AddressAg"):
            acts += [("line", lambda: setattr(o, "line", "host 9.9.9.9"))]
            if o.type == "addrgroup":  # members belong to group addresses only
                acts += [("items.append", lambda: o.items.append(type(o)("host 8.8.8.8",
                                                                         platform=o.platform))),
                         ("items[0].line", lambda: o.items and setattr(o.items[0], "line",
                                                                       "host 7.7.7.7"))]
        elif cname == "AddrGroup":
            acts += [("items.pop", lambda: o.items.pop() if len(o.items) > 1 else None),
                     ("items.append", lambda: o.items.append(AddressAg("host 8.8.8.8",
                                                                       platform=o.platform))),
                     ("items[0].sequence", lambda: setattr(o.items[0], "sequence", 77)),
                     ("items[0].line", lambda: setattr(o.items[0], "line", "host 7.7.7.7")),
                     ("name", lambda: setattr(o, "name", "G9")),
                     ("resequence", lambda: o.resequence(3, 3))]
        elif cname == "Port":
            acts += [("line", lambda: setattr(o, "line", "eq 1")),
                     ("items.append:port", lambda: o.items.append(4444)),
                     ("ports.append", lambda: o.ports.append(4444)),
                     ("items=", lambda: setattr(o, "items", [9]))]
        elif cname == "Protocol":
            acts += [("number", lambda: setattr(o, "number", 77)),
                     ("protocol_nr", lambda: setattr(o, "protocol_nr", not o.protocol_nr))]
        elif cname == "Option":
            acts += [("line", lambda: setattr(o, "line", "fin log")),
                     ("flags.append", lambda: o.flags.append("urg")),
                     ("logs.append", lambda: o.logs.append("log"))]
        elif cname == "Wildcard":
            acts += [("line", lambda: setattr(o, "line", "9.9.9.0 0.0.0.255")),
                     ("max_ncwb", lambda: setattr(o, "max_ncwb", 3))]
        name, fn = acts[k % len(acts)]
        fn()
        return name

    @staticmethod
    def _leaf(o, arg):
        ls = leaves(o) if isinstance(o, Acl) else list(o.items)
        return ls[arg % len(ls)] if ls else None

    def _pick_ace(self, o, arg):
        aces = self._aces(o)
        return aces[arg % len(aces)] if aces else None

    def _members_append(self, o, arg):
        for ace in self._aces(o):
            for addr in (ace.srcaddr, ace.dstaddr):
                if addr.type == "addrgroup":
                    addr.items.append(Address("host 8.8.4.4", platform=ace.platform))
                    return

    def _ace_addr_line(self, o, arg):
        ace = self._pick_ace(o, arg)
        if ace is not None:
            ace.srcaddr.line = "host 9.9.9.9"

    def _ace_port_line(self, o, arg):
        ace = self._pick_ace(o, arg)
        if ace is not None and ace.dstport.operator:
            ace.dstport.line = "eq 9"

    def _ace_opt_line(self, o, arg):
        ace = self._pick_ace(o, arg)
        if ace is not None:
            ace.option.line = "log"

    def _op_insert_regroup(self, op):
        """A plain entry inserted between / in front of the blocks of a grouped ACL through the
        list API, then an operation that regroups: every block that still starts with the same
        entry is the same block (identifier, note)."""
        slot = self._slot(op["t"])
        if slot is None or slot["cls"] != "Acl":
            return "noop"
        x = slot["obj"]
        if not x.group_by or not any(isinstance(it, AceGroup) and it.items for it in x.items):
            return "noop"
        before = self._idmap(x, "Acl")
        line = "permit ip any any" if op["arg"] % 2 else "remark loose"
        try:
            new = Ace(line, platform=x.platform) if op["arg"] % 2 else \
                Remark(line, platform=x.platform)
            x.insert(op["arg"] % len(x.items), new)
            how = op["arg"] % 3
            if how == 0:
                x.group(x.group_by)
            elif how == 1:
                x.port_nr = not x.port_nr
            else:
                x.protocol_nr = not x.protocol_nr
        except DOCUMENTED as ex:
            self.slots.remove(slot)
            return type(ex).__name__
        after = self._idmap(x, "Acl")
        b2 = {k_: (u, n) for k_, u, n in before["L2"]}
        a2 = {k_: (u, n) for k_, u, n in after["L2"]}
        for k_ in b2:
            if k_ in a2 and a2[k_] != b2[k_]:
                self.soft_fail("C16", "C16.identity",
                               f"Acl: entry inserted at {op['arg'] % len(x.items)}, then "
                               f"regrouped: the AceGroup starting with entry {k_[-4:]} changed "
                               f"identity {b2[k_]} -> {a2[k_]}", level="L2",
                               transformation="insert_regroup", cls="Acl")
                break
        self.probes["insert_then_regroup"] += 1
        self.did += 1
        self.trace.append(("insert_regroup",))
        # the history does not go on from an ACL with loose entries between blocks
        self.slots.remove(slot)
        return "ok"

    def _op_retitle(self, op):
        """Edit a heading remark of a grouped ACL (a public, legal change between operations)."""
        slot = self._slot(op["t"])
        if slot is None or slot["cls"] != "Acl":
            return "noop"
        groups = [it for it in slot["obj"].items if isinstance(it, AceGroup) and it.items
                  and isinstance(it.items[0], Remark)]
        if not groups:
            return "noop"
        g = groups[op["arg"] % len(groups)]
        g.items[0].text = f"{gen.HEAD}T{op['arg']}"
        slot["stale_names"] = True
        if op["arg"] % 2:
            g.note = ["retitled"]
        self.trace.append(("retitle",))
        return "ok"

    # ---- in-place transformations: uuid / note stability
    @staticmethod
    def _idmap(obj, cname):
        """-> dict level -> list of (key, uuid, note) in structural order."""
        m = {"L0": [("root", obj.uuid, norm(obj.note))], "L1": [], "L2": [], "L3": []}

        def subs(ace, key):
            for nm in ("protocol", "srcaddr", "srcport", "dstaddr", "dstport", "option"):
                so = getattr(ace, nm)
                m["L3"].append((f"{key}.{nm}", so.uuid, norm(so.note)))

        if cname == "Acl":
            i = 0
            for gi, it in enumerate(obj.items):
                if isinstance(it, AceGroup):
                    first = it.items[0].uuid if it.items else f"empty{gi}"
                    m["L2"].append((first, it.uuid, norm(it.note)))
                    inner = it.items
                else:
                    inner = [it]
                for lf in inner:
                    m["L1"].append((i, lf.uuid, norm(lf.note), lf))
                    i += 1
        elif cname == "AceGroup":
            for i, lf in enumerate(obj.items):
                m["L1"].append((i, lf.uuid, norm(lf.note), lf))
        elif cname == "AddrGroup":
            for i, lf in enumerate(obj.items):
                m["L1"].append((i, lf.uuid, norm(lf.note), lf))
        elif cname == "Ace":
            subs(obj, "ace")
        elif cname in ("Address", "AddressAg"):
            for i, lf in enumerate(obj.items):
                m["L1"].append((i, lf.uuid, norm(lf.note), lf))
        return m

    def _op_transform(self, op):  # noqa: C901
        slot = self._slot(op["t"])
        if slot is None:
            return "noop"
        x, cname = slot["obj"], slot["cls"]
        kind = op["kind"]
        plat = getattr(x, "platform", "ios")
        other = "nxos" if plat == "ios" else "ios"
        applicable = {
            "platform": True, "platform_same": True,
            "port_nr": cname in ("Acl", "AceGroup", "Ace", "Remark", "Port"),
            "protocol_nr": cname in ("Acl", "AceGroup", "Ace", "Remark", "Protocol"),
            "type": cname in ("Acl", "AceGroup", "Ace", "Remark"),
            "type_std": cname in ("Acl", "AceGroup", "Ace", "Remark") and plat == "ios",
            "resequence": cname in ("Acl", "AceGroup", "AddrGroup"),
            "sort": cname in ("Acl", "AceGroup", "AddrGroup"),
            "group": cname == "Acl", "ungroup": cname == "Acl", "group_coarse": cname == "Acl",
        }[kind]
        if not applicable:
            return "noop"
        if kind == "resequence" and cname != "AddrGroup" and any(
                isinstance(it, AceGroup) and not it.items for it in x.items):
            return "noop"
        bystanders = [(o, snapshot(o["obj"])) for o in self.slots if o is not slot]
        before = self._idmap(x, cname)
        # L3 of every leaf ACE
        l3_before = {}
        for ace in self._aces(x):
            l3_before[ace.uuid] = [(nm, getattr(ace, nm).uuid, norm(getattr(ace, nm).note))
                                   for nm in ("protocol", "srcaddr", "srcport", "dstaddr",
                                              "dstport", "option")]
        split_uuids = set()
        if kind == "platform" and other == "nxos":
            rd = Reader(plat, "0", strict=False)
            for ace in self._aces(x):
                try:
                    if needs_split(rd.ace_or_remark(ace.line)):
                        split_uuids.add(ace.uuid)
                except ReadError:
                    split_uuids.add(ace.uuid)
        pre = snapshot(x)
        try:
            if kind == "platform":
                x.platform = other
            elif kind == "platform_same":
                x.platform = plat
            elif kind == "port_nr":
                x.port_nr = not x.port_nr
            elif kind == "protocol_nr":
                x.protocol_nr = not x.protocol_nr
            elif kind == "type":
                x.type = "extended"
            elif kind == "type_std":
                x.type = "standard"
            elif kind == "resequence":
                x.resequence(10 + op["arg"], 10)
            elif kind == "sort":
                x.sort()
            elif kind == "group":
                x.group(gen.HEAD)
            elif kind == "group_coarse":
                # fewer headings match: one new block takes the entries of several old ones
                x.group(gen.HEAD + "H" + str(1 + op["arg"] % 3))
            elif kind == "ungroup":
                x.ungroup()
        except DOCUMENTED as ex:
            # abort rule: retire a torn object
            self.faults[f"abort[{kind}]"] += 1
            # ... but a refused transformation has replaced nothing by a split: every entry that
            # is still there is the entry that was there (identifier and note)
            after = self._idmap(x, cname)
            b1 = [(u, n) for _, u, n, lf in before["L1"]]
            a1 = [(u, n) for _, u, n, lf in after["L1"]]
            if before["L0"] != after["L0"] or (len(a1) == len(b1) and a1 != b1):
                self.probes["identity_checked_after_refusal"] += 1
                self.soft_fail("C16", "C16.identity",
                               f"{cname}.{kind} was refused ({type(ex).__name__}) and replaced "
                               f"entries: {[p_ for p_ in zip(b1, a1) if p_[0] != p_[1]][:2]}",
                               level="refused", transformation=kind, cls=cname)
            elif len(a1) == len(b1):
                self.probes["identity_checked_after_refusal"] += 1
            if snapshot(x) != pre:
                self.probes[f"torn_after_abort[{kind}]"] += 1
                self.slots.remove(slot)
            return type(ex).__name__
        except Exception as ex:
            if kind == "sort":
                self.slots.remove(slot)
                return type(ex).__name__  # mixed-type ordering is not C16's business
            raise
        for o, snap in bystanders:
            if snapshot(o["obj"]) != snap:
                self._fail("C16.independence", f"{cname}.{kind} on one live object changed "
                                               f"another live {o['cls']}", cls=cname,
                           transformation=kind)
        after = self._idmap(x, cname)
        disc = dict(transformation=kind, cls=cname)
        # L0
        if before["L0"] != after["L0"]:
            self.soft_fail("C16", "C16.identity",
                           f"{cname}.{kind}: root uuid/note changed {before['L0']} -> "
                           f"{after['L0']}", level="L0", **disc)
        # L1: leaves (multiset; order too unless the transformation reorders)
        b1 = [(u, n) for _, u, n, lf in before["L1"] if u not in split_uuids]
        a1 = [(u, n) for _, u, n, lf in after["L1"]]
        a1_set = {u for u, _ in a1}
        missing = [(u, n) for u, n in b1 if (u, n) not in a1]
        if missing:
            lost_uuid = [u for u, n in missing if u not in a1_set]
            self.soft_fail("C16", "C16.identity",
                           f"{cname}.{kind}: {len(missing)} of {len(b1)} leaves lost their "
                           f"{'uuid' if lost_uuid else 'note'} (e.g. {missing[0]})",
                           level="L1", **disc)
        # L2: groups, for transformations that are not group/ungroup themselves
        # L2: a block that still starts with the same entry is the same block (blocks that a
        # regrouping merges into their predecessor, or that ungroup dissolves, are replaced)
        if kind != "ungroup" and before["L2"]:
            b2 = {k_: (u, n) for k_, u, n in before["L2"]}
            a2 = {k_: (u, n) for k_, u, n in after["L2"]}
            for k_ in b2:
                if k_ in a2 and a2[k_] != b2[k_] and k_ not in split_uuids:
                    self.soft_fail("C16", "C16.identity",
                                   f"{cname}.{kind}: the AceGroup starting with entry {k_[-4:]} "
                                   f"was rebuilt: {b2[k_]} -> {a2[k_]}", level="L2", **disc)
                    break
        # L3: sub-objects of surviving ACEs
        for ace in self._aces(x):
            if ace.uuid in l3_before and ace.uuid not in split_uuids:
                now = [(nm, getattr(ace, nm).uuid, norm(getattr(ace, nm).note))
                       for nm in ("protocol", "srcaddr", "srcport", "dstaddr", "dstport",
                                  "option")]
                if now != l3_before[ace.uuid]:
                    self.soft_fail("C16", "C16.identity",
                                   f"{cname}.{kind}: sub-objects of an ACE got new uuid / lost "
                                   f"note: {l3_before[ace.uuid][1]} -> {now[1]}",
                                   level="L3", **disc)
                    break
        self.did += 1
        self.probes[f"transform[{cname}.{kind}]"] += 1
        self.trace.append(("tr", cname, kind))
        return "ok"
