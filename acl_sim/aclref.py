"""Reference semantics of the public operations on the ACL model (DESIGN.md 4.6)."""

from __future__ import annotations

from .aclops import perm_of
from .model import AclM, AddrM, Block, Cube, PortM, Reader, Rule, group_blocks

SEQ_MAX = 4294967295


class Expect:
    """Prediction for one op."""

    def __init__(self, model, error=None, adopt=None, note=""):
        self.model = model  # predicted post-state (None when an error is predicted)
        self.error = error  # None | exception class name predicted
        self.adopt = adopt  # None | "order" | "removal" | "structure"
        self.note = note


def regroup(m: AclM) -> None:
    """Blocks are rebuilt from the flat list; a rebuilt block that starts with the same entry as
    an existing block is that block (keeps its own sequence number)."""
    if m.group_by:
        old = {id(b.rules[0]): b for b in m.blocks if b.grouped and b.rules}
        m.blocks = group_blocks(m.flat(), m.group_by)
        for b in m.blocks:
            ob = old.get(id(b.rules[0]))
            if ob is not None:
                b.seq = ob.seq


def flat_leaves(m: AclM) -> None:
    m.blocks = [Block([r], grouped=False, seq=r.seq) for r in m.flat()]


def needs_split(r: Rule) -> bool:
    if r.kind != "ace":
        return False
    for p in (r.sport, r.dport):
        if p is not None and p.op in ("eq", "neq") and len(p.operands) > 1:
            return True
    return False


def split_rule(r: Rule):
    """Library order: source-major cross product; operands in ascending order."""
    if not needs_split(r):
        return [r]
    sps = [r.sport]
    if r.sport is not None and r.sport.op in ("eq", "neq"):
        sps = [PortM(r.sport.op, (o,)) for o in sorted(r.sport.operands)]
    dps = [r.dport]
    if r.dport is not None and r.dport.op in ("eq", "neq"):
        dps = [PortM(r.dport.op, (o,)) for o in sorted(r.dport.operands)]
    out = []
    for sp in sps:
        for dp in dps:
            c = r.clone()
            c.sport, c.dport = sp, dp
            out.append(c)
    return out


def split_all(m: AclM) -> bool:
    did = False
    for b in m.blocks:
        new = []
        for r in b.rules:
            parts = split_rule(r)
            if len(parts) > 1:
                did = True
            new.extend(parts)
        b.rules = new
    # a split leaf block becomes several leaf blocks
    blocks = []
    for b in m.blocks:
        if b.grouped:
            blocks.append(b)
        else:
            blocks.extend(Block([r], grouped=False, seq=r.seq) for r in b.rules)
    m.blocks = blocks
    return did


def to_standard(r: Rule):
    if r.kind != "ace":
        return
    r.proto = 0
    r.sport = r.dport = None
    r.dst = AddrM(cube=Cube(0, 0))
    r.flags = ()
    r.logs = ()
    r.standard = True


def reseq_predict(n_leaves_per_block, start, step):
    """-> (error?, numbers per leaf, per-block seq, return value)."""
    if not 0 <= start <= SEQ_MAX:
        return "ValueError", None, None, None
    if start and step < 1:
        return "ValueError", None, None, None
    if not start:
        step = 0
    total = sum(n_leaves_per_block)
    last = start + (total - 1) * step if total else start
    if last > SEQ_MAX:
        return "ValueError", None, None, None
    nums = [start + i * step for i in range(total)]
    return None, nums, None, (nums[-1] if nums else start)


def block_key(b: Block):
    return (b.grouped, tuple(r.den() for r in b.rules))


def top_seq(b: Block) -> int:
    return b.seq if b.grouped else b.rules[0].seq


def parse_item_line(m: AclM, line: str) -> Rule:
    r = Reader(m.platform, m.version, strict=True).ace_or_remark(line, m.type == "standard")
    if r.kind == "ace":
        for a in (r.src, r.dst):
            if a.group:
                a.members = ()
                for o in m.flat():
                    if o.kind != "ace":
                        continue
                    hit = [x for x in (o.src, o.dst) if x.group == a.group and x.members]
                    if hit:
                        a.members = tuple(hit[0].members)
                        break
    return r


def apply_model(m: AclM, op: dict) -> Expect:  # noqa: C901
    k = op["op"]
    m = m.clone()
    n = len(m.blocks)
    if k in ("set_platform", "flip3"):
        seq = [op["p"]] if k == "set_platform" else [op["p"], m.platform, op["p"]]
        for p in seq:
            if m.type == "standard" and p == "nxos":
                return Expect(None, error="ValueError")
            if p == "nxos":
                split_all(m)
                regroup(m)
            m.platform = p
        return Expect(m)
    if k in ("set_port_nr", "set_protocol_nr"):
        setattr(m, k[4:], bool(op["b"]))
        regroup(m)
        return Expect(m)
    if k == "set_type":
        ty = op["ty"]
        if m.platform == "nxos" and ty == "standard":
            return Expect(None, error="ValueError")
        if ty == "standard" and m.type == "extended":
            if any(r.kind == "ace" and r.src.group for r in m.flat()):
                return Expect(None, error="ValueError")
            for r in m.flat():
                to_standard(r)
        elif ty == "extended":
            for r in m.flat():
                r.standard = False
        m.type = ty
        regroup(m)
        return Expect(m)
    if k == "set_indent":
        m.indent = op["s"]
        return Expect(m)
    if k == "set_name":
        m.name = op["s"]
        return Expect(m)
    if k == "set_io":
        return Expect(m)
    if k == "resequence":
        start, step = (10, 10) if op.get("default") else (op["start"], op["step"])
        err, nums, _, ret = reseq_predict([len(b.rules) for b in m.blocks], start, step)
        if err:
            return Expect(None, error=err)
        i = 0
        for b in m.blocks:
            for r in b.rules:
                r.seq = nums[i]
                i += 1
            b.seq = b.rules[-1].seq if b.rules else 0
        return Expect(m, note=str(ret))
    if k == "resequence_group":
        if n and m.blocks[op["i"] % n].grouped and m.blocks[op["i"] % n].rules:
            b = m.blocks[op["i"] % n]
            err, nums, _, ret = reseq_predict([len(b.rules)], op["start"], op["step"])
            if err:
                return Expect(None, error=err)
            for r, x in zip(b.rules, nums):
                r.seq = x
            # (the block's own number is given by the ACL's resequence only)
            return Expect(m, note=str(ret))
        return Expect(m)
    if k == "group":
        if op["prefix"]:
            m.group_by = op["prefix"]
            regroup(m)
        return Expect(m)
    if k == "ungroup":
        m.group_by = ""
        flat_leaves(m)
        return Expect(m)
    if k == "sort":
        seqs = [top_seq(b) for b in m.blocks]
        if op.get("key") == "seq":
            m.blocks = sorted(m.blocks, key=top_seq, reverse=bool(op.get("reverse")))
            return Expect(m)
        if op.get("key") == "line":
            return Expect(m, adopt="order")
        if len(set(seqs)) == len(seqs):
            m.blocks = sorted(m.blocks, key=top_seq, reverse=bool(op.get("reverse")))
            return Expect(m)
        return Expect(m, adopt="order")
    if k == "reverse":
        m.blocks.reverse()
        return Expect(m)
    if k == "permute_setter":
        perm = perm_of(n, op["keys"])
        m.blocks = [m.blocks[p] for p in perm]
        regroup(m)
        return Expect(m)
    if k == "permute_popins":
        if n:
            x = m.blocks.pop(op["i"] % n)
            m.blocks.insert(op["j"] % n, x)
        return Expect(m)
    if k in ("pop", "delitem"):
        if n:
            m.blocks.pop(op["i"] % n)
        return Expect(m)
    if k in ("remove", "delete"):
        if n:
            key = block_key(m.blocks[op["i"] % n])
            for j, b in enumerate(m.blocks):
                if block_key(b) == key:
                    m.blocks.pop(j)
                    break
        return Expect(m)
    if k == "insert":
        r = parse_item_line(m, op["line"])
        m.blocks.insert(op["i"] % (n + 1), Block([r], grouped=False, seq=r.seq))
        return Expect(m)
    if k == "append":
        r = parse_item_line(m, op["line"])
        m.blocks.append(Block([r], grouped=False, seq=r.seq))
        return Expect(m)
    if k == "extend":
        for ln in op["lines"]:
            r = parse_item_line(m, ln)
            m.blocks.append(Block([r], grouped=False, seq=r.seq))
        return Expect(m)
    if k == "items_self":
        regroup(m)
        return Expect(m)
    if k in ("items_lines", "reparse"):
        # everything the text carries is kept; members and notes are not in the text
        for r in m.flat():
            if r.kind == "ace":
                for a in (r.src, r.dst):
                    if a.group:
                        a.members = ()
            r.note = ""
        flat_leaves(m)  # new entries: no block identity survives a re-parse
        regroup(m)
        return Expect(m)
    if k in ("copy", "export_import"):
        regroup(m)
        return Expect(m)
    if k in ("shading", "shadow_of", "tcam"):
        return Expect(m)
    if k in ("delete_shadow", "shadow_triple"):
        return Expect(m, adopt="removal")
    if k == "ungroup_ports":
        split_all(m)
        regroup(m)
        return Expect(m)
    if k == "ungroup_ports_group":
        if n and m.blocks[op["i"] % n].grouped:
            b = m.blocks[op["i"] % n]
            new = []
            for r in b.rules:
                new.extend(split_rule(r))
            b.rules = new
        return Expect(m)
    if k == "set_item_seq":
        if n:
            b = m.blocks[op["i"] % n]
            if b.rules:
                r = b.rules[op["j"] % len(b.rules)]
                r.seq = op["n"]
                if not b.grouped:
                    b.seq = r.seq
        return Expect(m)
    if k == "set_ports":
        if n:
            b = m.blocks[op["i"] % n]
            if b.rules:
                r = b.rules[op["j"] % len(b.rules)]
                if r.kind == "ace":
                    pm = r.sport if op["side"] == "src" else r.dport
                    if pm is not None and pm.op == op["operator"]:
                        pm.operands = tuple(op["items"])
        return Expect(m)
    if k in ("set_addr", "set_option"):
        if n and m.type == "extended":
            b = m.blocks[op["i"] % n]
            if b.rules:
                r = b.rules[op["j"] % len(b.rules)]
                if r.kind == "ace" and k == "set_addr":
                    cur = r.src if op["side"] == "src" else r.dst
                    if not cur.group:
                        new = Reader(m.platform, m.version, strict=True)._addr(
                            op["line"].split(), 0)[0]
                        if op["side"] == "src":
                            r.src = new
                        else:
                            r.dst = new
                elif r.kind == "ace" and (not op["flags"] or r.proto == 6):
                    r.flags, r.logs = tuple(op["flags"]), tuple(op["logs"])
        return Expect(m)
    if k in ("set_note", "scribble_ipnets", "foreign_parse", "scribble_names"):
        return Expect(m)
    if k == "set_remark_text":
        if n:
            b = m.blocks[op["i"] % n]
            if b.rules:
                r = b.rules[op["j"] % len(b.rules)]
                if r.kind == "remark":
                    r.text = op["s"]
        return Expect(m)
    if k == "set_members":
        rd = Reader(m.platform, m.version, strict=False)
        cubes = tuple(rd._addr(ln.split(), 0)[0].cube for ln in op["lines"])
        for r in m.flat():
            if r.kind == "ace":
                for a in (r.src, r.dst):
                    if a.group == op["name"]:
                        a.members = cubes
        return Expect(m)
    raise KeyError(k)
