"""M-BUILD: constructions from text with the root logger as a simulated, faultable sink (C12)."""

from __future__ import annotations

from cisco_acl import AceGroup, Acl, AddrGroup

from . import gen
from .core import Machine, Streams, Violation
from .model import Reader, ReadError
from .seams import SimIds, SimLog, SimMemo, SinkFault

DOCUMENTED = (ValueError, TypeError)
IGNORABLE = ["statistics per-entry", "description some text", "ignore this", "statistics x",
             "description permit ip any any"]
FIRST_WORDS = ["evaluate", "reflect", "dynamic", "no", "default", "exit", "fragments", "hardware",
               "sequence", "remarkx", "permitx", "denyall", "allow", "interface", "ip", "end",
               "statisticsx", "descr", "ignored", "!", "#", "permit", "deny", "remark", "10",
               "20 permit", "30 deny", "40 remark", "object-group", "host"]


class BuildMachine(Machine):
    name = "M-BUILD"
    PROPS = ("C12",)
    QUICK_RUNS = {"C12": 5000}
    THOROUGH_BUDGET_S = 600
    RULE = (
        "one evaluation = one seeded history of 1-6 constructions (Acl / AceGroup / AddrGroup from "
        "text, AddrGroup from item strings, and the line/items setters on the live objects) whose "
        "bodies (0-15 lines) mix valid, ignorable, invalid, blank and over-limit lines; the root "
        "logger is a simulator-owned sink with a capture handler in front of a downstream handler "
        "that fails at its k-th record in fault-injecting runs; distinct = distinct sequence of "
        "(target, line classes, fault point); non-trivial = the body holds >= 1 valid and >= 1 "
        "invalid line"
    )
    COMPONENTS = {
        "real": ["cisco_acl.acl/ace_group/addr_group/helpers/parsers (from /repo)",
                 "logging (real module; handlers of the root logger owned by the simulator)"],
        "stub": ["uuid1 -> SimIds", "downstream log handler -> faulty sink (raises OSError at "
                 "its k-th record)"],
    }
    ASSUMPTIONS = [
        "lines called valid are valid by construction of the generator (independent of the "
        "library) and are re-read by the harness reader",
        "a record 'names' a line when its message contains the whitespace-normalised line "
        "(address groups: the member text without its sequence number)",
        "logging.disable()/raised root level are application choices, not injected faults",
    ]

    def __init__(self, prop, tier="quick"):
        super().__init__(prop, tier)
        self.ids = SimIds()
        self.log = SimLog()
        self.memo = SimMemo()
        self.live = {}
        self.live_ncwb = {}
        self.live_body = {}
        self._pool = {}
        self.had_mix = False
        self.trace = []

    def draw_config(self, st: Streams, idx: int) -> dict:
        w = st.w
        return dict(
            steps=w.randint(1, 14 if self.tier == "thorough" else 6),
            platform=w.choice(["ios", "ios", "nxos"]),
            faults=w.random() < 0.3,
            p_invalid=w.choice([0.0, 0.15, 0.3, 0.6]),
            p_ignorable=w.choice([0.0, 0.1, 0.3]),
            p_blank=w.choice([0.0, 0.1]),
            overlimit=w.random() < 0.15,
            both_platforms=w.random() < 0.4,
            versions=w.random() < 0.4,
            max_lines=w.choice([3, 8, 15]),
            names=w.random() < 0.5,
            p_group=0.1, p_ncw=0.15, p_multi=0.3, p_related=0.3, p_heading=0.1, p_remark=0.15,
            numbered=w.choice(["none", "all", "some"]),
        )

    def reset(self, cfg):
        if cfg.get("versions"):
            # lines whose validity depends on the software version: port names of 135 / 521 /
            # 15001 / 15002 (known to IOS 16, not to IOS 15)
            cfg = dict(cfg, version_ports=True, names=True)
        self.cfg = cfg
        self.ids.install()
        self.memo.install()
        self.log.install()
        self.live = {}
        self.live_ncwb = {}
        self.live_body = {}
        self._pool = {}

    def teardown(self):
        self.live = {}
        self.log.uninstall()
        self.memo.uninstall()
        self.ids.uninstall()

    def nontrivial(self):
        return self.had_mix

    def state_hash(self):
        import hashlib
        return hashlib.sha1(repr(self.trace).encode()).hexdigest()[:16]

    # ------------------------------------------------------------- generation
    def _invalid_line(self, w, platform, valid_pool):
        r = w.random()
        if r < 0.35 and valid_pool:
            # truncated / corrupted valid line
            toks = w.choice(valid_pool).split()
            how = w.random()
            if how < 0.4 and len(toks) > 2:
                toks = toks[: w.randint(1, len(toks) - 1)]
            elif how < 0.7:
                toks.insert(w.randint(1, len(toks)), w.choice(["bogus", "999.1.1.1", "eq", "??"]))
            else:
                toks[w.randrange(len(toks))] = w.choice(["prmit", "hst", "300.0.0.1", "tcpp"])
            return " ".join(toks)
        if r < 0.45:
            # a header of another ACL (of any kind) in the body: reported, and parsing goes on
            return w.choice([f"ip access-list extended X{w.randint(1, 9)}",
                             f"ipv6 access-list V6-{w.randint(1, 9)}",
                             f"mac access-list M{w.randint(1, 9)}",
                             f"arp access-list A{w.randint(1, 9)}"])
        first = w.choice(FIRST_WORDS)
        rest = w.sample(["ip", "any", "host", "10.0.0.1", "eq", "80", "log", "text", "tcp",
                         "0.0.0.255", "permit"], w.randint(0, 4))
        return " ".join([first, *rest])

    V15_UNKNOWN = ("msrpc", "onep-plain", "onep-tls", "ripv6")

    def _acl_body(self, w, platform, max_ncwb, version="0"):
        cfg = self.cfg
        lines, specs = gen.gen_acl_lines(w, cfg, platform, "0")
        mine = self._pool.setdefault(platform, [])
        if mine and w.random() < 0.5:
            # lines this platform accepts that were met before in this history (possibly offered
            # to the other platform, which may have refused and reported them)
            k = w.randint(1, min(3, len(mine)))
            for ln, sp in w.sample(mine, k):
                pos = w.randint(0, len(lines))
                lines.insert(pos, ln)
                specs.insert(pos, sp)
        seen = {ln for ln, _ in mine}
        mine.extend((ln, sp) for ln, sp in zip(lines, specs) if sp is not None and ln not in seen)
        del mine[:-12]
        body = []
        pool = list(lines)
        foreign = self._pool.get("nxos" if platform == "ios" else "ios", [])
        for ln, _sp in foreign[-4:]:
            if w.random() < 0.5 and ("group" in ln or "/" in ln or len(ln.split()) > 9):
                body.append(["invalid", ln])  # may be refused here, or become an item
        for ln, spec in zip(lines, specs):
            if spec is not None and any(a[0] == "wild" and gen.ncw_bits(a[2]) > max_ncwb
                                        for a in (spec["src"], spec["dst"])):
                body.append(["overlimit", ln])
                continue
            if version == "15.2" and any(tok in self.V15_UNKNOWN for tok in ln.split()):
                body.append(["invalid", ln])  # a port name IOS 15 does not know: refused there
                continue
            r = w.random()
            if r < cfg["p_invalid"]:
                body.append(["invalid", self._invalid_line(w, platform, pool)])
            if r > 1 - cfg["p_ignorable"]:
                body.append(["ignorable", w.choice(IGNORABLE)])
            if w.random() < cfg["p_blank"]:
                body.append(["blank", w.choice(["", "   "])])
            body.append(["valid", ln])
        if cfg["overlimit"] and w.random() < 0.7:
            body.insert(w.randint(0, len(body)),
                        ["overlimit", "permit ip 10.0.0.0 0.85.85.85 any"])
        if w.random() < cfg["p_invalid"]:
            body.append(["invalid", self._invalid_line(w, platform, pool)])
        if w.random() < 0.25:
            # the ignorable words somewhere *inside* a line do not make it ignorable
            seq = w.choice(["", "", f"{w.randint(1, 900)} "])
            body.insert(w.randint(0, len(body)), ["valid", seq + "remark " + w.choice([
                "see description in ticket 42", "ignore fragments below",
                "statistics per-entry enabled here", "no description yet", "do not ignore this"])])
            if w.random() < 0.4:
                # remark texts have no length limit in the library (names have: 100 characters)
                words = " ".join(w.choice(["change", "CHG0012345", "ticket", "allow", "legacy",
                                           "remove-after", "2026-09-28", "owner:netops"])
                                 for _ in range(w.randint(14, 22)))
                body.insert(w.randint(0, len(body)), ["valid", seq + "remark " + words])
            if w.random() < cfg["p_invalid"]:
                body.insert(w.randint(0, len(body)), ["invalid", w.choice([
                    "foo ignore bar", "x description y", "show statistics now",
                    "permit ignore me", "deny description any"])])
        body = body[: cfg["max_lines"]]
        # random indentation / inner whitespace (normalised by the library)
        out = []
        for kind, ln in body:
            if kind != "blank" and w.random() < 0.3:
                ln = ln.replace(" ", "  ", 1)
            out.append([kind, w.choice(["", " ", "  ", "    "]) + ln])
        return out

    def _ag_body(self, w, platform):
        cfg = self.cfg
        n = w.randint(0, min(8, cfg["max_lines"]))
        body = []
        for i in range(n):
            if body and w.random() < 0.15:
                prev = [b for b in body if b[0] == "valid"]
                if prev:
                    body.append(["valid", w.choice(prev)[1]])  # the same member once more
                    continue
            r = w.random()
            base = gen._base(w)
            seq = f"{(i + 1) * 10} " if platform == "nxos" and w.random() < 0.4 else ""
            if r < cfg["p_invalid"]:
                body.append(["invalid", w.choice([
                    "host 300.1.1.1", "10.0.0.0 255.0.255.0" if platform == "ios" else "10.0.0.0/40",
                    "bogus line", "range 10.0.0.1 10.0.0.9", "permit ip any any", "host",
                    "10.0.0.1 10.0.0", "any" if platform == "ios" else "0.0.0.0/99"])])
                continue
            if r > 1 - cfg["p_ignorable"]:
                body.append(["ignorable", "description members of the group"])
                continue
            k = w.choice([0, 1, 4, 8, 16])
            mask = (1 << k) - 1
            b = base & ~mask & 0xFFFFFFFF
            if k == 0:
                body.append(["valid", f"{seq}host {gen.ip(b)}"])
            elif platform == "ios":
                body.append(["valid", f"{gen.ip(b)} {gen.ip(~mask & 0xFFFFFFFF)}"])
            elif w.random() < 0.6:
                body.append(["valid", f"{seq}{gen.ip(b)}/{32 - k}"])
            else:
                body.append(["valid", f"{seq}{gen.ip(b)} {gen.ip(mask)}"])
        return body

    def next_op(self, st: Streams) -> dict:
        w, s, f = st.w, st.s, st.f
        cfg = self.cfg
        platform = cfg["platform"]
        if cfg.get("both_platforms") and s.random() < 0.5:
            platform = "nxos" if platform == "ios" else "ios"
        version = "0"
        if cfg.get("versions") and platform == "ios" and s.random() < 0.5:
            version = "15.2"
        target = s.choice(["Acl", "Acl", "Acl", "AceGroup", "AceGroup", "AddrGroup", "AddrGroup",
                           "AddrGroupItems"])
        via = "ctor"
        max_ncwb = w.choice([0, 1, 2, 3]) if cfg["overlimit"] else 16
        key = f"{target}:{platform}:{version}"
        flip_from = f"{target}:{'nxos' if platform == 'ios' else 'ios'}:0"
        if target in ("Acl", "AceGroup") and version == "0" and flip_from in self.live \
                and s.random() < 0.25:
            # a live object of the other platform is converted, then given text of this platform
            lim = self.live_ncwb.get(flip_from, 16)
            body = self._acl_body(w, platform, lim, version)
            return dict(op="build", target=target, via="flip_setter", platform=platform,
                        version=version, lines=body, fail_at=None, fault_mode="raise",
                        max_ncwb=lim)
        if target == "Acl" and platform == "nxos" and version == "0" and s.random() < 0.1:
            # a standard IOS ACL whose conversion to NX-OS is refused (documented) and that is
            # then given NX-OS text under its own name: the text is what the object is built from
            body = self._acl_body(w, platform, 16, version)
            return dict(op="build", target=target, via="refused_flip", platform=platform,
                        version=version, lines=body, fail_at=None, fault_mode="raise",
                        max_ncwb=16)
        if key in self.live and s.random() < 0.4:
            via = "setter"
            max_ncwb = self.live_ncwb.get(key, 16)
            if key in self.live_body and s.random() < 0.35:
                # the text the object was built from, assigned again after an in-place change
                return dict(op="build", target=target, via="setter_same", platform=platform,
                            version=version, lines=self.live_body[key], fail_at=None,
                            fault_mode="raise",
                            max_ncwb=max_ncwb, mutate=s.choice(["pop", "reverse", "append",
                                                                "seq", "clear"]))
        if target in ("AddrGroup", "AddrGroupItems"):
            body = self._ag_body(w, platform)
        else:
            body = self._acl_body(w, platform, max_ncwb, version)
        fail_at = None
        if cfg["faults"] and f.random() < 0.7:
            n_inv = sum(1 for kind, _ in body if kind == "invalid") or 1
            fail_at = f.randint(1, n_inv + 1)
        return dict(op="build", target=target, via=via, platform=platform, version=version,
                    lines=body, fail_at=fail_at,
                    fault_mode=f.choice(["raise", "raise", "detach"]), max_ncwb=max_ncwb)

    # ------------------------------------------------------------- oracle
    def _fail(self, oracle, msg, **disc):
        raise Violation("C12", oracle, msg, disc)

    @staticmethod
    def _norm(ln):
        return " ".join(ln.split())

    def apply(self, op: dict) -> str:
        target, platform, via = op["target"], op["platform"], op["via"]
        body = [[k, t] for k, t in op["lines"]]
        self.trace.append((target, via, tuple(k for k, _ in body), op["fail_at"]))
        kinds = {k for k, _ in body}
        if "valid" in kinds and "invalid" in kinds:
            self.had_mix = True
        self.log.take()
        self.log.arm(op["fail_at"], op.get("fault_mode", "raise"))
        err = None
        obj = None
        try:
            obj = self._construct(op, body)
        except Exception as ex:
            err = ex
        finally:
            fired = self.log.faulty.fired if self.log.faulty else 0
            self.log.arm(None)
        recs = self.log.take()
        if fired:
            self.faults["sink_failed_mid_construct" if op.get("fault_mode", "raise") == "raise"
                        else "sink_detached_mid_construct"] += 1
        if err is not None:
            return self._judge_error(op, body, err, fired)
        if fired:
            # the injected sink error was swallowed: legal only if the accounting still holds
            self.probes["sink_error_swallowed"] += 1
        self._walk(op, body, obj, recs)
        if target in ("Acl", "AceGroup", "AddrGroup"):
            key = f"{target}:{platform}:{op.get('version', '0')}"
            self.live[key] = obj
            self.live_body[key] = [[k, t] for k, t in op["lines"]]
            if via in ("ctor", "refused_flip"):
                self.live_ncwb[key] = op["max_ncwb"]
        return "ok"

    def _construct(self, op, body):
        target, platform, via = op["target"], op["platform"], op["via"]
        texts = [t for _, t in body]
        version = op.get("version", "0")
        key = f"{target}:{platform}:{version}"
        if via == "flip_setter":
            other = f"{target}:{'nxos' if platform == 'ios' else 'ios'}:0"
            obj = self.live.pop(other, None)
            via = "ctor"
            if obj is not None:
                try:
                    obj.platform = platform
                    self.live[key] = obj
                    self.live_ncwb[key] = self.live_ncwb.pop(other, 16)
                    via = "setter"
                    self.probes["setter_after_flip"] += 1
                except DOCUMENTED:
                    pass  # e.g. a multi-port entry cannot go to nxos: the object is dropped
        if via in ("setter", "setter_same") and key not in self.live:
            via = "ctor"  # ops are total: without a live object the text is simply constructed
        if via == "setter_same" and key in self.live:
            obj = self.live[key]
            how = op.get("mutate")
            try:
                if how == "pop" and obj.items:
                    obj.items.pop()
                elif how == "reverse":
                    obj.items.reverse()
                elif how == "append" and obj.items:
                    obj.items.append(obj.items[0])
                elif how == "seq" and obj.items:
                    obj.items[0].sequence = 7777
                elif how == "clear":
                    del obj.items[:]
            except Exception:  # noqa
                pass
            via = "setter"
        if target == "Acl":
            head = gen.header(platform, "extended", "T1")
            text = "\n".join([head, *texts])
            if via == "refused_flip":
                obj = Acl("ip access-list standard T1\n permit host 10.0.0.1\n deny any",
                          platform="ios")
                try:
                    obj.platform = platform
                except DOCUMENTED:
                    self.probes["text_after_refused_flip"] += 1
                if obj.platform != platform:
                    # the refusal left the object on its old platform (it does since the repair
                    # of C16-standard-remarks-to-nxos): text of the other platform is then
                    # simply constructed
                    return Acl(text, platform=platform, version=version,
                               max_ncwb=op["max_ncwb"])
                obj.line = text
                return obj
            if via == "setter":
                obj = self.live[key]
                obj.line = text
                return obj
            return Acl(text, platform=platform, version=version, max_ncwb=op["max_ncwb"])
        if target == "AceGroup":
            text = "\n".join(texts)
            if via == "setter":
                obj = self.live[key]
                obj.line = text
                return obj
            return AceGroup(text, platform=platform, version=version, max_ncwb=op["max_ncwb"])
        head = "object-group ip address AG1" if platform == "nxos" else "object-group network AG1"
        if target == "AddrGroup":
            text = "\n".join([head, *["  " + t for t in texts]])
            if via == "setter":
                obj = self.live[key]
                obj.line = text
                return obj
            return AddrGroup(text, platform=platform)
        # AddrGroupItems
        return AddrGroup(name="AG1", items=[self._norm(t) or " " for t in texts],
                         platform=platform)

    def _judge_error(self, op, body, err, fired):
        name = type(err).__name__
        if isinstance(err, SinkFault):
            if not fired:
                self._fail("C12.error-type", "SinkFault without an injected fault")
            self.probes["construct_failed_with_injected_error"] += 1
            return "SinkFault"
        if not isinstance(err, DOCUMENTED):
            self._fail("C12.error-type", f"{op['target']} construction raised {name}: {err}",
                       target=op["target"])
        kinds = [k for k, _ in body]
        culprit = any(k in ("invalid", "overlimit") for k in kinds)
        if op["target"] in ("AddrGroup", "AddrGroupItems"):
            # an address group without any valid member is an error as a whole
            culprit = culprit or "valid" not in kinds
        if not culprit:
            self._fail("C12.valid-rejected",
                       f"{op['target']} from only valid/ignorable lines raised {name}: {err}\n"
                       + "\n".join(t for _, t in body), target=op["target"])
        self.probes[f"whole_failure[{name}]"] += 1
        return name

    def _walk(self, op, body, obj, recs):
        target, platform = op["target"], op["platform"]
        is_ag = target in ("AddrGroup", "AddrGroupItems")
        items = list(obj.items)
        rd = Reader(platform, "0", strict=False)
        msgs = [(lv, m) for lv, m in recs]

        def den_of_text(t):
            if is_ag:
                from .m_acl import AclMachine
                return AclMachine._member_cube(t, platform)
            return rd.ace_or_remark(t).den()

        def reported(line, warning_needed):
            n = self._norm(line)
            cands = [n]
            if is_ag:
                toks = n.split()
                if toks and toks[0].isdigit() and len(toks) > 1:
                    cands.append(" ".join(toks[1:]))
            for idx, (lv, m) in enumerate(msgs):
                if warning_needed and lv < 30:
                    continue
                if any(c and repr(c) in m for c in cands):
                    del msgs[idx]  # one record accounts for one line
                    return True
            return False

        nonempty = [(k, t) for k, t in body if self._norm(t)]
        remaining_valid = sum(1 for k, _ in nonempty if k == "valid")
        j = 0
        for kind, text in nonempty:
            n = self._norm(text)
            if kind == "valid":
                remaining_valid -= 1
                if j >= len(items):
                    self._fail("C12.valid-dropped", f"valid line {n!r} has no item "
                                                    f"({len(items)} items)", target=target)
                try:
                    want = den_of_text(n)
                    got = den_of_text(self._norm(items[j].line))
                except (ReadError, ValueError, IndexError) as ex:
                    self._fail("C12.item-unreadable", f"item {j} {items[j].line!r}: {ex}",
                               target=target)
                if want != got:
                    self._fail("C12.valid-dropped",
                               f"valid line {n!r} is not the item at its position (item {j} is "
                               f"{items[j].line!r})", target=target)
                j += 1
                continue
            if kind == "ignorable":
                if reported(n, False):
                    self.probes["ignorable_reported"] += 1
                continue
            # invalid / overlimit: reported, or represented by an item at this position
            if reported(n, warning_needed=not is_ag):
                self.probes["invalid_reported"] += 1
                continue
            if len(items) - j > remaining_valid:
                self.probes["invalid_line_became_item"] += 1
                j += 1
                continue
            self._fail("C12.lost-without-trace",
                       f"{target}: line {n!r} is neither an item, nor ignorable, nor named by a "
                       f"{'log' if is_ag else 'WARNING'} record (records: "
                       f"{[m[:80] for _, m in msgs][:4]})", target=target)
        if j != len(items):
            self._fail("C12.item-without-line", f"{target}: {len(items) - j} items are not "
                                                f"accounted for by any body line", target=target)
        self.probes["constructions_walked"] += 1
