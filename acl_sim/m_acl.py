"""M-ACL: histories of public operations on live ACLs under memo/GC faults and library aborts.

Serves C17 (all oracles) and, with a biased alphabet, C02 / C04 / C10 / C15 / C19 (owned oracles).
"""

from __future__ import annotations

import copy
import gc
from collections import Counter

from cisco_acl import Ace, AceGroup, Acl, Address, AddressAg, AddrGroup, Remark

from . import gen
from .aclobs import (alpha_attr, alpha_text, fastcopy, leaves, make_twin,
                     make_twin_structured, norm,
                     text_projection)
from .aclops import STATE_FREE, member_objs, perform
from .aclref import SEQ_MAX, Expect, apply_model, needs_split, split_rule
from .core import Machine, Streams, Violation
from .model import (AclM, Block, Reader, ReadError, Rule, first_match, group_blocks, rule_covers,
                    witness_packets)
from .seams import SimIds, SimLog, SimMemo

DOCUMENTED = (ValueError, TypeError)

# operations that rearrange / regroup the item list of one ACL without editing an entry in place
SAFE_SHARED = {"group", "ungroup", "sort", "reverse", "permute_setter", "permute_popins", "pop",
               "delitem", "remove", "delete", "insert", "append", "extend", "tcam", "shading",
               "shadow_of", "set_name", "set_io", "set_indent", "items_self"}
# operations after which "sort() restores the numbered order" still has to hold
# (a permutation assigned through the items setter regroups under group_by and may merge a
# heading-less block into its new predecessor: the reference model follows that, this text-level
# oracle does not, so it stands down)
KEEPS_NUMBERING = {"resequence", "sort", "reverse", "permute_popins", "tcam",
                   "shading", "shadow_of", "set_io", "set_note"}

OWNER_OF_OP = {
    "set_platform": "C02", "flip3": "C02", "conv_obj": "C02",
    "delete_shadow": "C04", "shadow_triple": "C04",
    "resequence": "C10", "ag_resequence": "C10", "resequence_group": "C10", "nested_resequence": "C10",
    "group": "C15", "ungroup": "C15", "sort": "C15", "reverse": "C15", "permute_setter": "C15",
    "permute_popins": "C15", "tcam": "C15",
    "ungroup_ports": "C19", "ungroup_ports_group": "C19", "ace_ungroup_ports": "C19",
}

ALPHABET = [
    "set_platform", "flip3", "set_port_nr", "set_protocol_nr", "set_indent", "set_name", "set_io",
    "resequence", "group", "ungroup", "sort", "reverse", "permute_setter", "permute_popins", "pop",
    "delitem", "remove", "delete", "insert", "append", "extend", "items_self", "items_lines",
    "reparse", "copy", "export_import", "shading", "shadow_triple", "delete_shadow",
    "ungroup_ports", "ungroup_ports_group", "ace_ungroup_ports", "tcam", "set_item_seq",
    "set_remark_text", "set_members", "set_type", "conv_obj", "ag_resequence", "set_note", "set_ports", "scribble_ipnets",
    "foreign_parse", "resequence_group", "nested_resequence", "set_addr", "set_option",
    "scribble_names",
]

BIAS = {
    "C02": {"set_platform": 10, "flip3": 4, "conv_obj": 3, "group": 2, "ungroup": 1,
            "resequence": 1, "set_port_nr": 1, "set_protocol_nr": 1, "copy": 1,
            "export_import": 1, "reparse": 1, "set_members": 1, "insert": 2, "append": 1,
            "set_ports": 1, "items_self": 1, "set_item_seq": 2, "reverse": 1, "sort": 1,
            "scribble_names": 1,
            "permute_popins": 1},
    "C04": {"shadow_triple": 10, "delete_shadow": 3, "shading": 3, "shadow_of": 1, "group": 2,
            "ungroup": 1, "resequence": 1, "insert": 2, "append": 2, "set_platform": 1,
            "set_members": 5, "copy": 1, "permute_popins": 1, "set_note": 2,
            "scribble_ipnets": 2, "ungroup_ports": 2, "set_addr": 2, "set_option": 1},
    "C10": {"resequence": 10, "ag_resequence": 3, "resequence_group": 3, "nested_resequence": 3, "group": 2, "ungroup": 1, "sort": 1,
            "reverse": 1, "insert": 1, "append": 1, "pop": 1, "set_item_seq": 1,
            "permute_popins": 1, "set_platform": 1, "set_note": 2},
    "C15": {"group": 6, "ungroup": 5, "sort": 5, "reverse": 2, "permute_setter": 3,
            "permute_popins": 3, "resequence": 4, "tcam": 3, "set_members": 2, "insert": 1,
            "items_self": 1, "set_remark_text": 1},
    "C19": {"ungroup_ports": 8, "ungroup_ports_group": 3, "ace_ungroup_ports": 4,
            "set_platform": 3, "group": 2, "ungroup": 1, "resequence": 1, "insert": 2,
            "append": 1, "copy": 1, "set_ports": 3, "export_import": 1, "set_addr": 1,
            "set_option": 1},
}


class AclMachine(Machine):
    name = "M-ACL"
    PROPS = ("C02", "C04", "C10", "C15", "C17", "C19")
    QUICK_RUNS = {"C17": 2600, "C02": 1600, "C04": 2400, "C10": 3000, "C15": 3000, "C19": 2000}
    THOROUGH_BUDGET_S = 900
    RULE = (
        "one evaluation = one seeded history (<= 40 ops; quick <= 14) of public operations on <= 2 "
        "live ACLs (<= 12 lines, relational ACE generator, address groups with members, "
        "flat/grouped, numbered or not) interleaved with memo clear/bypass/pressure and gc events; "
        "after every step: independent-reader refinement against the reference model, "
        "attribute/text sync, text fix-point, twin differential, plus the oracles owned by the "
        "property on its own operations; distinct = distinct abstract end state (platform, type, "
        "switches, grouping, block shape, rule denotations); non-trivial = >= 2 state-changing "
        "steps and >= 1 evaluation of an oracle owned by the property"
    )
    COMPONENTS = {
        "real": ["cisco_acl (all modules, from /repo working tree)", "netports", "vhelpers",
                 "ipaddress", "functools.lru_cache of cisco_acl.wildcard (real, perturbed via "
                 "cache_clear / __wrapped__)", "logging (real, simulator-owned handlers)"],
        "stub": ["uuid1 -> SimIds (logical counter)"],
    }
    ASSUMPTIONS = [
        "port/protocol name tables of the library are trusted data (C09 not claimed)",
        "TCP flag semantics = match-any over six flags (+ established = ack|rst)",
        "ACL <= 12 lines, history <= 40 ops, non-contiguous wildcards <= 3 holes",
        "twin = Acl(**deepcopy(acl.data())): a fresh object with equal line and data(); steps "
        "where the twin cannot be brought to equality are skipped and counted (twin_unbuildable)",
        "the SUT reads no clock: simulated time is the event sequence number",
    ]

    def owns(self, prop):
        if self.prop == "C17":
            return prop in self.PROPS
        return prop == self.prop

    def __init__(self, prop, tier="quick"):
        super().__init__(prop, tier)
        self.ids = SimIds()
        self.memo = SimMemo()
        self.log = SimLog()
        self.slots = []
        self.changing_steps = 0
        self.owned_evals = 0

    # ------------------------------------------------------------- config
    def draw_config(self, st: Streams, idx: int) -> dict:
        w = st.w
        long = self.tier == "thorough"
        if self.prop == "C17":
            plan = self.prefix_plan(self.tier)
            if idx < len(plan):
                a, kinds = plan[idx]
                return dict(steps=1 + len(kinds), seed_acl=a, prefix_kinds=kinds,
                            platform=self.SEED_ACLS[a]["platform"], version="0", names=True,
                            numbered="all", p_related=0.5, memo_faults=False, memo_rate=0.0,
                            gc_events=False, aborts=False, memo_size="shipped", p_multi=0.35,
                            p_multi_neq=0.0, weights={})
        platform = w.choice(["ios", "ios", "nxos"])
        cfg = dict(
            steps=w.randint(2, 40 if long else 14),
            platform=platform,
            version=w.choice(["0", "0", "15.2", "16.9", "9.3", "17.3"]),
            max_lines=w.choice([3, 5, 8, 12]) if long else w.choice([3, 5, 8]),
            numbered=w.choice(["none", "all", "all", "some"]),
            names=w.random() < 0.6,
            port_nr=w.random() < 0.25,
            protocol_nr=w.random() < 0.2,
            indent=w.choice(["  ", "  ", " ", "    "]),
            group_by=gen.HEAD if w.random() < 0.35 else "",
            p_heading=w.choice([0.0, 0.15, 0.3]),
            p_remark=w.choice([0.0, 0.1, 0.2]),
            p_related=w.choice([0.2, 0.5, 0.8]),
            p_group=w.choice([0.0, 0.1, 0.25]),
            p_ncw=w.choice([0.0, 0.12, 0.25]),
            p_multi=w.choice([0.0, 0.35, 0.7]),
            p_multi_neq=w.choice([0.0, 0.0, 0.0, 0.5]) if self.prop in ("C19", "C17") else 0.0,
            p_flags=w.choice([0.0, 0.15, 0.3]),
            p_log=w.choice([0.0, 0.15]),
            empty_ports=w.random() < 0.2,
            dup_headings=w.random() < 0.2,
            prefix_headings=w.random() < 0.2,
            standard=platform == "ios" and w.random() < 0.06,
            memo_faults=w.random() < 0.5,
            memo_rate=w.choice([0.05, 0.1, 0.2]),
            memo_size=w.choice(["shipped", "shipped", "shipped", None, 0, 1, 2]),
            gc_events=w.random() < 0.3,
            aborts=w.random() < 0.25,
            members_known=w.random() < 0.8,
            two_clients=w.random() < 0.2,
            share_items=self.prop in ("C15", "C17") and w.random() < 0.25,
            log_level=w.choice(["DEBUG", "WARNING"]),
            boundary_ports=w.random() < (0.3 if self.prop == "C04" else 0.12),
            version_ports=w.random() < 0.3,
            from_config=w.random() < 0.2,
        )
        bias = BIAS.get(self.prop)
        if self.prop == "C04":
            cfg["p_related"] = w.choice([0.5, 0.8, 0.9])
            cfg["p_group"] = w.choice([0.1, 0.25, 0.45])
            cfg["empty_ports"] = w.random() < 0.4
            cfg["p_multi_neq"] = w.choice([0.0, 0.0, 0.6])
        if self.prop == "C19":
            cfg["port_zero"] = w.random() < 0.15
        if bias:
            cfg["weights"] = bias
        else:
            # swarm: random subset of the alphabet enabled per run
            k = w.randint(6, len(ALPHABET))
            enabled = w.sample(ALPHABET, k)
            cfg["weights"] = {o: 1 + (2 if o in ("set_platform", "group", "resequence",
                                                 "shadow_triple", "ungroup_ports") else 0)
                              for o in enabled}
        if not cfg["aborts"]:
            cfg["standard"] = False
        return cfg

    def reset(self, cfg):
        self.cfg = cfg
        self.ids.install()
        self.memo.install()
        self.log.install(cfg.get("log_level", "DEBUG"))
        if cfg.get("memo_size", "shipped") != "shipped" and self.memo.present:
            self.memo.resize(cfg["memo_size"])
            self.memo.fired["resize"] = 0
            self.faults["memo_size_knob"] += 1
        self.slots = []
        self.press_base = 0

    def teardown(self):
        self.slots = []
        self.memo.uninstall()
        self.log.uninstall()
        self.ids.uninstall()

    def nontrivial(self):
        return self.changing_steps >= 2 and self.owned_evals >= 1

    def state_hash(self):
        parts = []
        for s in self.slots:
            m = s["m"]
            parts.append(repr((m.platform, m.type, m.port_nr, m.protocol_nr, bool(m.group_by),
                               m.shape(), tuple(r.den(with_seq=False) + (r.seq != 0,)
                                                for r in m.flat()))))
        import hashlib
        return hashlib.sha1("|".join(parts).encode()).hexdigest()[:16]

    # ------------------------------------------------------------- failures
    def _fail(self, owner, oracle, msg, **disc):
        raise Violation(owner, oracle, msg, disc)

    def _owner(self, op, default="C17"):
        return OWNER_OF_OP.get(op["op"], default)

    def _count_owned(self, owner):
        if owner == self.prop or self.prop == "C17":
            self.owned_evals += 1

    # ------------------------------------------------------------- state check
    def check_state(self, slot, where, owner="C17", op=None, fixpoint=True):
        """Invariants that hold after every step (C17.1-3); `owner` re-attributes refinement
        failures to the property that owns the operation just applied."""
        acl, m = slot["acl"], slot["m"]
        opk = op["op"] if op else "create"
        disc = {"opkind": opk}
        text = acl.line
        # -- independent reading of the rendered text (grammar of the current platform)
        try:
            type_, name, rules_t = alpha_text(text, m.platform, m.version)
        except ReadError as ex:
            orc = "C02.valid-target" if owner == "C02" else "C17.grammar"
            self._fail(owner if owner == "C02" else "C17", orc,
                       f"{where}: rendered text is not {m.platform} syntax: {ex}\n{text}", **disc)
        attr = alpha_attr(acl)
        lv = leaves(acl)
        if len({id(x) for x in lv}) != len(lv):
            self._fail(owner if owner in ("C19", "C15") else "C17", f"{owner}.aliased-entries",
                       f"{where}: the same entry object stands at two positions of the ACL",
                       **disc)
        parts = [id(getattr(x, nm)) for x in lv if isinstance(x, Ace)
                 for nm in ("protocol", "srcaddr", "srcport", "dstaddr", "dstport", "option")]
        if len(set(parts)) != len(parts):
            own = "C19" if (owner == "C19" or self.prop == "C19" and opk in (
                "set_platform", "flip3")) else "C17"
            self._fail(own, f"{own}.aliased-parts",
                       f"{where}: two entries of the ACL share a protocol/address/port/option "
                       f"object (editing one entry would edit the other)", **disc)
        # -- attributes in sync with the text
        d_text = [r.den(with_members=False) for r in rules_t]
        d_attr = [r.den(with_members=False) for r in attr.flat()]
        if d_text != d_attr or (type_, name) != (attr.type, attr.name):
            i = next((i for i, (a, b) in enumerate(zip(d_text, d_attr)) if a != b),
                     min(len(d_text), len(d_attr)))
            self._fail("C17", "C17.attr-sync",
                       f"{where}: attributes out of sync with rendered text at rule {i}: "
                       f"text={d_text[i:i + 1]} attr={d_attr[i:i + 1]}\n{text}", **disc)
        # -- refinement against the model
        head_m = (m.name, m.type, m.platform, m.port_nr, m.protocol_nr, m.indent, m.group_by)
        head_a = (attr.name, attr.type, attr.platform, attr.port_nr, attr.protocol_nr,
                  attr.indent, attr.group_by)
        if head_m != head_a:
            self._fail(owner, f"{owner}.refine-header",
                       f"{where}: header/switches {head_a} != model {head_m}", **disc)
        d_model = [r.den() for r in m.flat()]
        d_attr_m = [r.den() for r in attr.flat()]
        heads = [r.text for r in m.flat()
                 if r.kind == "remark" and m.group_by and r.text.startswith(m.group_by)]
        if len(heads) != len(set(heads)) and d_model != d_attr_m:
            # regrouping with repeated heading texts: whatever op triggered it, the loss is a
            # conservation failure of grouping (owner C15)
            self.probes["dup_heading"] += 1
            self._fail("C15", "C15.conservation",
                       f"{where}: (re)grouping with repeated heading texts lost or moved entries:"
                       f" model {len(d_model)} rules, impl {len(d_attr_m)}\n{text}",
                       dup_heading=True)
        if d_model != d_attr_m:
            i = next((i for i, (a, b) in enumerate(zip(d_model, d_attr_m)) if a != b),
                     min(len(d_model), len(d_attr_m)))
            self._fail(owner, f"{owner}.refine-rules",
                       f"{where}: rule list differs from the reference model at {i} "
                       f"(model {len(d_model)} rules, impl {len(d_attr_m)}):\n model="
                       f"{d_model[i:i + 1]}\n impl ={d_attr_m[i:i + 1]}\n{text}",
                       **disc, **self._rule_disc(m, i))
        sh_m = [(b.grouped, len(b.rules), b.name if b.grouped else "", b.seq) for b in m.blocks]
        sh_a = [(b.grouped, len(b.rules), b.name if b.grouped else "", b.seq)
                for b in attr.blocks]
        if sh_m != sh_a:
            self._fail(owner, f"{owner}.refine-structure",
                       f"{where}: block structure {sh_a} != model {sh_m}\n{text}", **disc)
        # -- derived views (queries under the op's memo-fault schedule: a memo must be transparent)
        if self.prop == "C17":
            # (owned by C17; in the run of another property a failure here would end the run
            # before that property's own oracles meet the corrupted state)
            self.memo.begin_op(op.get("memo") if op else None)
            try:
                self._derived_views(acl, where, disc)
            finally:
                self.memo.begin_op(None)
        # -- text fix-point
        if fixpoint:
            self._fixpoint(slot, text, where, disc)

    def _derived_views(self, acl, where, disc):
        """ipnets()/ports of every entry must describe the address / port expression it reports."""
        from ipaddress import IPv4Address
        from .model import Cube, port_intervals

        def check_addr(obj, what):
            wl = obj.wildcard
            if not wl:
                return
            a, w_ = wl.split()
            base, mask = int(IPv4Address(a)), int(IPv4Address(w_))
            r = 0
            while r < 32 and (mask >> r) & 1:
                r += 1
            k = bin(mask >> r).count("1")
            if k > 6:
                return
            nets = obj.ipnets()
            cube = Cube.wild(base, mask)
            seen = set()
            for n in nets:
                na = int(n.network_address)
                if n.prefixlen != 32 - r or not cube.contains_addr(na) or na & ((1 << r) - 1):
                    self._fail("C17", "C17.derived-views",
                               f"{where}: {what} {wl!r}.ipnets() holds {n}", **disc)
                seen.add(na)
            if len(nets) != 1 << k or len(seen) != len(nets):
                self._fail("C17", "C17.derived-views",
                           f"{where}: {what} {wl!r}.ipnets() has {len(nets)} networks "
                           f"({len(seen)} distinct), want {1 << k}", **disc)
            self.probes["derived_addr_checked"] += 1

        for leaf in leaves(acl):
            if not isinstance(leaf, Ace):
                continue
            for addr in (leaf.srcaddr, leaf.dstaddr):
                if addr.type == "addrgroup":
                    total = 0
                    for it in addr.items:
                        check_addr(it, f"member of {addr.addrgroup}")
                    if addr.items and all(it.wildcard for it in addr.items):
                        total = sum(len(it.ipnets()) for it in addr.items)
                        if total <= 512 and len(addr.ipnets()) != total:
                            self._fail("C17", "C17.derived-views",
                                       f"{where}: group {addr.addrgroup}.ipnets() has "
                                       f"{len(addr.ipnets())} networks, members give {total}",
                                       **disc)
                else:
                    check_addr(addr, "address")
            for p in (leaf.srcport, leaf.dstport):
                if p.operator and p.operator != "neq":
                    iv = port_intervals(p.operator, tuple(p.items))
                    size = sum(hi - lo + 1 for lo, hi in iv)
                    if size <= 3000:
                        want = {x for lo, hi in iv for x in range(lo, hi + 1)}
                        if set(p.ports) != want:
                            self._fail("C17", "C17.derived-views",
                                       f"{where}: ports of {p.line!r} do not match its operands",
                                       **disc)

    @staticmethod
    def _rule_disc(m, i):
        flat = m.flat()
        if i < len(flat) and flat[i].kind == "ace":
            r = flat[i]
            ops = [p.op for p in (r.sport, r.dport) if p is not None]
            return {"neq_multi": any(p is not None and p.op == "neq" and len(p.operands) > 1
                                     for p in (r.sport, r.dport)), "ops": ",".join(ops)}
        return {}

    def _fixpoint(self, slot, text, where, disc):
        acl, m = slot["acl"], slot["m"]
        kw = dict(platform=m.platform, version=m.version, port_nr=m.port_nr,
                  protocol_nr=m.protocol_nr, indent=m.indent, group_by=m.group_by,
                  max_ncwb=m.max_ncwb)
        try:
            again = Acl(text, **kw)
        except DOCUMENTED as ex:
            self._fail("C17", "C17.fixpoint", f"{where}: rendered text does not parse back: "
                                              f"{type(ex).__name__}: {ex}\n{text}", **disc)
        heads = [r.text for r in m.flat()
                 if r.kind == "remark" and m.group_by and r.text.startswith(m.group_by)]
        if again.line != text and len(heads) != len(set(heads)):
            self.probes["dup_heading"] += 1
            self._fail("C15", "C15.conservation",
                       f"{where}: re-parsing with group_by and repeated heading texts loses "
                       f"entries:\n{text}\n--- re-parsed ---\n{again.line}", dup_heading=True)
        if again.line != text:
            self._fail("C17", "C17.fixpoint", f"{where}: rendered text is not a fix-point of the "
                                              f"parser:\n{text}\n--- re-parsed ---\n{again.line}",
                       **disc)
        h1, l1 = text_projection(acl.data())
        h2, l2 = text_projection(again.data())
        if l1 != l2:
            i = next((i for i, (a, b) in enumerate(zip(l1, l2)) if a != b), min(len(l1), len(l2)))
            diff = {k: (l1[i].get(k), l2[i].get(k)) for k in l1[i]
                    if l1[i].get(k) != l2[i].get(k)} if i < min(len(l1), len(l2)) else {}
            self._fail("C17", "C17.fixpoint-data",
                       f"{where}: data() of the re-parsed text differs at leaf {i}: {diff}", **disc)
        recs = self.log.take()
        if any(lv >= 30 for lv, _ in recs):
            self.probes["warnings_during_fixpoint"] += 1

    # ------------------------------------------------------------- apply
    def _slot(self, t):
        if not self.slots:
            return None
        return self.slots[t % len(self.slots)]

    def apply(self, op: dict) -> str:
        k = op["op"]
        self.memo.begin_op(None)
        try:
            if k == "create_acl":
                return self._op_create(op)
            if k == "create_cfg":
                return self._op_create_cfg(op)
            if k == "memo_clear":
                self.memo.clear()
                return "ok"
            if k == "memo_pressure":
                self.memo.pressure(op["n"], self.press_base)
                self.press_base += op["n"]
                return "ok"
            if k == "gc_collect":
                gc.collect()
                self.faults["gc_collect"] += 1
                return "ok"
            if k == "move_item":
                return self._op_move_item(op)
            if k == "share_items":
                return self._op_share_items(op)
            if k == "drop":
                if len(self.slots) > 1:
                    self.slots.pop(op.get("t", 0) % len(self.slots))
                    self.faults["drop"] += 1
                    for o in self.slots:
                        o.pop("share", None)
                    return "ok"
                return "noop"
            if k == "conv_obj":
                return self._op_conv_obj(op)
            if k == "ace_ungroup_ports":
                return self._op_ace_ungroup_ports(op)
            if k == "ag_resequence":
                return self._op_ag_resequence(op)
            if k == "nested_resequence":
                return self._op_nested_resequence(op)
            slot = self._slot(op.get("t", 0))
            if slot is None:
                return "noop"
            return self._op_generic(slot, op)
        finally:
            self.memo.begin_op(None)
            self.log.take()
            self.faults["memo_clear"] = self.memo.fired["clear"]
            self.faults["memo_bypass"] = self.memo.fired["bypass"]
            self.faults["memo_pressure"] = self.memo.fired["pressure"]
            self.probes["memo_calls"] = self.memo.calls

    # ---- creation
    def _op_create(self, op):
        platform, version = op["platform"], op["version"]
        type_ = op.get("type", "extended")
        head = gen.header(platform, type_, op["name"])
        text = "\n".join([head] + [op["indent"] + ln for ln in op["lines"]])
        kw = dict(platform=platform, version=version, port_nr=op["port_nr"],
                  protocol_nr=op["protocol_nr"], indent=op["indent"], group_by=op["group_by"])
        # model from the independent reader
        try:
            t_, name, rules = Reader(platform, version, strict=True).acl(text)
        except ReadError:
            return "noop-unreadable"  # shrunk/odd input outside the harness grammar: not judged
        acl = Acl(text, **kw)
        members = op.get("members") or {}
        rd = Reader(platform, version, strict=False)
        mcubes = {g: tuple(rd._addr(ln.split(), 0)[0].cube for ln in lines)
                  for g, lines in members.items()}
        for r in rules:
            if r.kind == "ace":
                for a in (r.src, r.dst):
                    if a.group:
                        a.members = mcubes.get(a.group, ())
        for leaf in leaves(acl):
            if isinstance(leaf, Ace):
                for addr in (leaf.srcaddr, leaf.dstaddr):
                    if addr.type == "addrgroup" and addr.addrgroup in members:
                        addr.items = member_objs(acl, members[addr.addrgroup])
        m = AclM(name=name, type=t_, platform=platform, version=version, port_nr=op["port_nr"],
                 protocol_nr=op["protocol_nr"], indent=op["indent"], group_by=op["group_by"])
        if op["group_by"]:
            m.blocks = group_blocks(rules, op["group_by"])
        else:
            m.blocks = [Block([r], grouped=False, seq=r.seq) for r in rules]
        slot = dict(acl=acl, m=m)
        if len(self.slots) < 2:
            self.slots.append(slot)
        else:
            self.slots[op.get("t", 0) % 2] = slot
        self.probes["fresh_prestate_steps"] += 1
        self.check_state(slot, "after create", op=op)
        return "ok"

    def _op_move_item(self, op):
        """An item taken out of one live ACL and inserted into another (same platform)."""
        if len(self.slots) < 2:
            return "noop"
        a, b = self.slots[op["t"] % 2], self.slots[(op["t"] + 1) % 2]
        if a.get("share") or b.get("share"):
            return "noop"  # the same entry would stand in one ACL twice
        ma, mb = a["m"], b["m"]
        if not ma.blocks or (ma.platform, ma.version, ma.type, ma.port_nr, ma.protocol_nr) != \
                (mb.platform, mb.version, mb.type, mb.port_nr, mb.protocol_nr):
            return "noop"
        i = op["i"] % len(ma.blocks)
        blk = ma.blocks[i]
        for r in blk.rules:
            if r.kind == "ace":
                for ad in (r.src, r.dst):
                    if ad.group:
                        other = [x for o in mb.flat() if o.kind == "ace" for x in (o.src, o.dst)
                                 if x.group == ad.group]
                        if any(tuple(x.members or ()) != tuple(ad.members or ()) for x in other):
                            return "noop"  # one definition per group name
        j = op["j"] % (len(mb.blocks) + 1)
        pre_a, pre_b = a["acl"].line, b["acl"].line
        a.pop("numbered", None)
        b.pop("numbered", None)
        item = a["acl"].pop(i)
        b["acl"].insert(j, item)
        ma2, mb2 = ma.clone(), mb.clone()
        moved = ma2.blocks.pop(i)
        mb2.blocks.insert(j, moved)
        a["m"], b["m"] = ma2, mb2
        a["age"] = a.get("age", 0) + 1
        b["age"] = b.get("age", 0) + 1
        self.changing_steps += 1
        self.probes["items_moved_between_acls"] += 1
        self.check_state(a, "giver after move_item", op=op)
        self.check_state(b, "taker after move_item", op=op)
        return "ok"

    def _op_share_items(self, op):
        """A second ACL built from the item *objects* of a live one: both ACLs reference the same
        entries and blocks.  Operations that only rearrange or regroup the item list of one of
        them (SAFE_SHARED) must leave the other untouched; before any other operation the partner
        is dropped, because entries edited in place legitimately show in both."""
        if len(self.slots) != 1:
            return "noop"
        a = self.slots[0]
        ma, acl = a["m"], a["acl"]
        if any(isinstance(it, AceGroup) and not it.items for it in acl.items):
            return "noop"
        snap = norm(acl.data())
        pre_text = acl.line
        gb = op["group_by"]
        new = Acl(name=op["name"], items=list(acl.items), platform=ma.platform,
                  version=ma.version, type=ma.type, port_nr=ma.port_nr,
                  protocol_nr=ma.protocol_nr, indent=ma.indent, group_by=gb)
        owner = self.prop if self.prop in ("C15", "C16") else "C17"
        if norm(acl.data()) != snap or acl.line != pre_text:
            self._fail(owner, f"{owner}.interference",
                       f"building a second ACL from the items of a live one changed the source: "
                       f"{self._dict_diff(snap, norm(acl.data()))}", opkind="share_items")
        mb = ma.clone()
        mb.name = op["name"]
        mb.group_by = gb
        mb = apply_model(mb, {"op": "items_self"}).model
        b = dict(acl=new, m=mb, share=True)
        a["share"] = True
        self.slots.append(b)
        self.probes["acls_sharing_items"] += 1
        self.check_state(b, "after share_items", op=op)
        self.check_state(a, "source after share_items", op=op)
        return "ok"

    def _op_create_cfg(self, op):
        """ACLs built by the config-level function, group members attached by the library."""
        import cisco_acl
        from .model import Cube
        platform, version = op["platform"], op["version"]
        parts = []
        for g, mem in op["groups"].items():
            parts.append(("object-group ip address " if platform == "nxos"
                          else "object-group network ") + g)
            for base, mask in mem:
                if mask == 0:
                    parts.append(f" host {gen.ip(base)}")
                elif platform == "nxos":
                    parts.append(f" {gen.ip(base)}/{gen.plen(mask)}")
                else:
                    parts.append(f" {gen.ip(base)} {gen.ip(~mask & 0xFFFFFFFF)}")
        for a in op["acls"]:
            parts.append(gen.header(platform, "extended", a["name"]))
            parts.extend(" " + ln for ln in a["lines"])
        config = "\n".join(parts)
        try:
            models = []
            for a in op["acls"]:
                text = "\n".join([gen.header(platform, "extended", a["name"])]
                                 + [op["indent"] + ln for ln in a["lines"]])
                models.append(Reader(platform, version, strict=True).acl(text))
        except ReadError:
            return "noop-unreadable"
        objs = cisco_acl.acls(config, platform=platform, version=version, indent=op["indent"],
                              group_by=op["group_by"], port_nr=op["port_nr"],
                              protocol_nr=op["protocol_nr"])
        if len(objs) != len(op["acls"]):
            self._fail("C17", "C17.config-acls", f"acls(config) returned {len(objs)} ACLs for "
                                                 f"{len(op['acls'])} sections")
        mcubes = {g: tuple(Cube.wild(b, m_) for b, m_ in mem) for g, mem in op["groups"].items()}
        self.slots = []
        for acl, (t_, name, rules) in zip(objs, models):
            for r in rules:
                if r.kind == "ace":
                    for ad in (r.src, r.dst):
                        if ad.group:
                            ad.members = mcubes.get(ad.group, ())
            m = AclM(name=name, type=t_, platform=platform, version=version,
                     port_nr=op["port_nr"], protocol_nr=op["protocol_nr"], indent=op["indent"],
                     group_by=op["group_by"])
            if op["group_by"]:
                m.blocks = group_blocks(rules, op["group_by"])
            else:
                m.blocks = [Block([r], grouped=False, seq=r.seq) for r in rules]
            slot = dict(acl=acl, m=m)
            self.slots.append(slot)
        self.probes["created_from_config"] += 1
        for slot in self.slots:
            self.check_state(slot, "after acls(config)", op=op)
        return "ok"

    # ---- the generic path: twin, model, oracles
    def _op_generic(self, slot, op):  # noqa: C901
        k = op["op"]
        owner = self._owner(op)
        acl, m = slot["acl"], slot["m"]
        if k == "resequence" and any(isinstance(it, AceGroup) and not it.items
                                     for it in acl.items):
            return "noop-empty-group"  # the quantifier of C10 excludes empty groups
        if k in ("set_platform", "flip3") and m.type == "standard" and op["p"] == "nxos" \
                and not any(r.kind == "ace" for r in m.flat()):
            return "noop-out-of-domain"  # C02 ranges over extended ACLs; nothing to convert
        slot["age"] = slot.get("age", 0)
        if slot.get("share") and k not in SAFE_SHARED:
            # entries edited in place legitimately show in every ACL that holds them
            self.slots[:] = [slot]
            slot.pop("share", None)
            self.probes["sharing_ended_by_unsafe_op"] += 1
        elif slot.get("share"):
            self.probes["ops_on_sharing_acls"] += 1
        if k not in KEEPS_NUMBERING:
            slot.pop("numbered", None)
        self.probes["aged_prestate_steps" if slot["age"] else "fresh_prestate_steps"] += 1
        pre_text = acl.line
        pre_data = fastcopy(acl.data())
        pre_leaves = list(leaves(acl))
        self._pre_notes = [norm(x.note) for x in pre_leaves]
        self._pre_leaf_lines = [x.line for x in pre_leaves]
        others = [(o, norm(o["acl"].data())) for o in self.slots if o is not slot]
        # -- twin (history-free object with the same observable state)
        twin = None
        for build in (make_twin, make_twin_structured):
            try:
                twin = build(pre_data)
                if twin.line != pre_text or norm(twin.data()) != norm(pre_data):
                    twin = None
            except DOCUMENTED:
                twin = None
            if twin is not None:
                if build is make_twin_structured:
                    self.probes["twin_structured"] += 1
                break
        if twin is None:
            self.probes["twin_unbuildable"] += 1
        # -- copy / export_import replace the object
        exp = apply_model(m, op)
        # -- execute on the aged object, with memo faults scheduled inside the operation
        self.memo.begin_op(op.get("memo"))
        err = None
        res = None
        try:
            if k == "copy":
                new = acl.copy()
            elif k == "export_import":
                new = Acl(**acl.data())
            else:
                res = perform(acl, op)
        except Exception as ex:  # classified below
            err = ex
        finally:
            self.memo.begin_op(None)
        # -- twin execution (no faults)
        terr, tres = None, None
        if twin is not None and k not in ("copy", "export_import"):
            was = self.memo.active
            self.memo.active = False
            try:
                tres = perform(twin, op)
            except Exception as ex:
                terr = ex
            finally:
                self.memo.active = was
        # -- no operation on one ACL may change another live ACL
        for o, snap in others:
            if norm(o["acl"].data()) != snap:
                self._count_owned(owner)
                self._fail(owner, f"{owner}.interference",
                           f"{k} {self._brief(op)} on one ACL changed another live ACL: "
                           f"{self._dict_diff(snap, norm(o['acl'].data()))}", opkind=k)
        # -- outcome classification
        if err is not None:
            ename = type(err).__name__
            if not isinstance(err, DOCUMENTED):
                self.probes[f"undocumented_exception[{ename}]"] += 1
            twin_mismatch = twin is not None and type(terr) is not type(err)
            if twin_mismatch and (self.prop == "C17" or exp.error is not None):
                self._fail("C17", "C17.twin-outcome",
                           f"{k}: aged object raised {ename}, fresh twin "
                           f"{'raised ' + type(terr).__name__ if terr else 'returned'}: {err}",
                           opkind=k)
            if exp.error is None:
                orc = {"C02": "C02.converts", "C10": "C10.error-iff"}.get(owner,
                                                                          f"{owner}.unexpected-error")
                if self.prop == "C19" and k in ("set_platform", "flip3") and \
                        any(needs_split(r) for r in m.flat()):
                    # the automatic split of the conversion is C19's clause as well
                    owner, orc = "C19", "C19.implicit-split-fails"
                self._count_owned(owner)
                self._fail(owner, orc,
                           f"{k} {self._brief(op)} raised {ename}: {err}\non:\n{pre_text}",
                           opkind=k, exc=ename, grouped=bool(m.group_by),
                           has_group_addr=any(r.kind == "ace" and (r.src.group or r.dst.group)
                                              for r in m.flat()))
            if owner == "C10" and ename != "ValueError":
                self._fail("C10", "C10.error-type", f"resequence raised {ename}, not ValueError")
            # abort rule 4.4
            self.faults[f"abort[{k}]"] += 1
            if acl.line == pre_text and norm(acl.data()) == norm(pre_data):
                self.probes["abort_atomic"] += 1
            else:
                self.probes[f"torn_after_abort[{k}]"] += 1
                if k == "resequence":
                    # an overflowing resequence has renumbered part of the ACL and nothing else:
                    # the caller may well go on with that object, so the history continues on it
                    # with the numbers it now carries (state left behind by the aborted call -
                    # flags, counters - stays reachable)
                    m2 = m.clone()
                    lv = leaves(acl)
                    flat = m2.flat()
                    if len(lv) == len(flat) and len(acl.items) == len(m2.blocks):
                        for r_, x_ in zip(flat, lv):
                            r_.seq = x_.sequence
                        for b_, it_ in zip(m2.blocks, acl.items):
                            b_.seq = it_.sequence
                        slot["m"] = m2
                        try:
                            self.check_state(slot, "after aborted resequence", owner="C17", op=op)
                            self.probes["torn_adopted[resequence]"] += 1
                            if slot.get("numbered") != acl.line:
                                # the refused call renumbered a part: what "the numbered order"
                                # is now is not specified.  (If it put back the very text of the
                                # last successful renumbering, sort() still has to restore it.)
                                slot.pop("numbered", None)
                            return ename
                        except Violation:
                            slot["m"] = m
                # the caller discards the torn object and rebuilds it from the exported pre-state
                slot["acl"] = make_twin(pre_data)
                slot["m"] = apply_model(m, {"op": "export_import"}).model
                slot["age"] = 0
                slot.pop("numbered", None)
            return ename
        if exp.error is not None:
            orc = "C10.error-iff" if owner == "C10" else f"{owner}.error-expected"
            self._count_owned(owner)
            self._fail(owner, orc, f"{k} {self._brief(op)} returned normally, reference model "
                                   f"predicts {exp.error}\non:\n{pre_text}", opkind=k)
        if k in ("copy", "export_import"):
            # the copy replaces the source in the slot after being compared with it
            if new.line != pre_text:
                self._fail("C17", "C17.copy-text", f"{k}: text differs from source:\n{pre_text}\n"
                                                   f"---\n{new.line}")
            slot["acl"] = new
            acl = new
        # -- twin differential (owned by C17; in the run of another property its failure is
        #    deferred until that property's own oracles had their say on this step)
        pending = None
        try:
            self._twin_differential(k, op, acl, twin, terr, res, tres)
        except Violation as v:
            if self.prop == "C17":
                raise
            pending = v
        # -- op-specific owned oracles (before the model is advanced)
        m2 = exp.model
        if k == "resequence":
            self._oracle_resequence(slot, op, res, exp, pre_text)
            if (10 if op.get("default") else op["start"]) > 0:
                slot["numbered"] = acl.line
            else:
                slot.pop("numbered", None)
        if k == "sort" and not op.get("reverse") and op.get("key") is None:
            # whatever order sort() chooses among ties, the result is sorted by the library's own
            # ordering relation: no item compares less than the item in front of it
            its = list(acl.items)
            for a_, b_ in zip(its, its[1:]):
                if b_ < a_:
                    self._count_owned("C15")
                    self._fail("C15", "C15.sorted",
                               f"after sort() an item compares less than its predecessor:\n"
                               f"{a_.line}\n{b_.line}", opkind=k)
            self.probes["sorted_pairs_checked"] += max(len(its) - 1, 0)
        if k == "sort" and slot.get("numbered") and not op.get("reverse") \
                and op.get("key") is None:
            # also after a *refused* renumbering in between: whatever a refused call leaves
            # behind, a text that shows ascending numbers is what sort() has to restore
            self._count_owned("C15")
            self.probes["sort_after_numbering"] += 1
            if acl.line != slot["numbered"]:
                self._fail("C15", "C15.sort-restores",
                           f"sort() after resequence and reordering did not restore the numbered "
                           f"order:\n{slot['numbered']}\n---\n{acl.line}", opkind=k)
        elif k == "resequence_group":
            self._count_owned("C10")
            if exp.note and str(res) != exp.note:
                self._fail("C10", "C10.return", f"AceGroup.resequence({op['start']},{op['step']}) "
                                                f"returned {res}, last number is {exp.note}")
            if exp.note:
                self.probes["block_resequenced_on_its_own"] += 1
        elif k in ("delete_shadow", "shadow_triple"):
            m2 = self._oracle_delete_shadow(slot, op, res, m)
        elif k in ("ungroup_ports", "ungroup_ports_group"):
            self._oracle_ungroup_ports(slot, op, m, pre_leaves)
        elif k == "flip3":
            self._count_owned("C02")
            if res[0] != res[1]:
                self._fail("C02", "C02.converge", f"there/back/there differs:\n{res[0]}\n---\n"
                                                  f"{res[1]}", opkind=k)
            if not res[2]:
                # not judged: the statement speaks about the text (an ios->nxos flip regroups
                # loose entries under group_by, which changes data() but not the text)
                self.probes["flip3_data_differs"] += 1
        elif k == "tcam":
            self._oracle_tcam(slot, res)
        elif k in ("shading", "shadow_of"):
            if acl.line != pre_text:
                self._fail("C17", "C17.query-mutates", f"{k} changed the ACL")
        if k == "set_platform" or k == "flip3":
            self._oracle_platform(slot, op, m, pre_text)

        if exp.adopt == "order":
            m2 = self._adopt_order(slot, m2, owner, k)
        # -- C15 conservation on reordering / regrouping ops
        if k in ("group", "ungroup", "sort", "reverse", "permute_setter", "permute_popins"):
            self._oracle_conservation(slot, op, m, pre_text)
        slot["m"] = m2
        if k not in STATE_FREE:
            if acl.line != pre_text:
                self.changing_steps += 1
            slot["age"] = slot.get("age", 0) + 1
        if k in ("copy", "export_import"):
            slot["age"] = 0
        self.check_state(slot, f"after {k} {self._brief(op)}", owner=owner, op=op)
        self._count_owned(owner)
        if pending is not None:
            raise pending
        if k in ("set_platform", "flip3") and op["p"] == "nxos" and m.platform == "ios" \
                and any(needs_split(r) for r in m.flat()):
            # the implicit split of the conversion is C19's clause (after C02's own refinement)
            self._oracle_ungroup_ports(slot, dict(op="ungroup_ports"), m, pre_leaves,
                                       identity=False)
        return "ok"


    def _twin_differential(self, k, op, acl, twin, terr, res, tres):
        if twin is None or k in ("copy", "export_import"):
            return
        if terr is not None:
            self._fail("C17", "C17.twin-outcome",
                       f"{k}: aged object returned, fresh twin raised "
                       f"{type(terr).__name__}: {terr}", opkind=k)
        if acl.line != twin.line:
            self._fail("C17", "C17.twin-text",
                       f"{k} {self._brief(op)}: effect depends on history.\naged:\n{acl.line}"
                       f"\ntwin:\n{twin.line}", opkind=k)
        if norm(acl.data()) != norm(twin.data()):
            self._fail("C17", "C17.twin-data",
                       f"{k} {self._brief(op)}: data() differs between aged object and twin "
                       f"after the same op: "
                       f"{self._dict_diff(norm(acl.data()), norm(twin.data()))}", opkind=k)
        if norm(res) != norm(tres):
            self._fail("C17", "C17.twin-result", f"{k}: return value {res!r} != twin {tres!r}",
                       opkind=k)
        self.probes["twin_checked"] += 1

    @staticmethod
    def _brief(op):
        return str({k: v for k, v in op.items() if k not in ("op", "memo", "t")})[:160]

    @staticmethod
    def _dict_diff(a, b, path=""):
        if type(a) is not type(b):
            return f"{path}: {a!r} != {b!r}"[:300]
        if isinstance(a, dict):
            for k in a:
                if a.get(k) != b.get(k):
                    return AclMachine._dict_diff(a.get(k), b.get(k), f"{path}.{k}")
        if isinstance(a, list):
            if len(a) != len(b):
                return f"{path}: len {len(a)} != {len(b)}"
            for i, (x, y) in enumerate(zip(a, b)):
                if x != y:
                    return AclMachine._dict_diff(x, y, f"{path}[{i}]")
        return f"{path}: {a!r} != {b!r}"[:300]

    def _adopt_order(self, slot, m2, owner, k):
        """Under-determined order (ties / text keys): check conservation + blocks intact, adopt."""
        attr = alpha_attr(slot["acl"])
        from .aclref import block_key
        want = Counter(block_key(b) for b in m2.blocks)
        got = Counter(block_key(b) for b in attr.blocks)
        if want != got:
            self._fail("C15", "C15.block-unit", f"{k}: blocks were not moved as units / entries "
                                                f"lost or duplicated", opkind=k)
        names = {block_key(b): (b.name, b.seq) for b in m2.blocks}
        m2.blocks = [Block([r.clone() for r in b.rules], b.grouped, *names[block_key(b)])
                     for b in attr.blocks]
        return m2

    # ------------------------------------------------------------- owned oracles
    def _oracle_resequence(self, slot, op, res, exp, pre_text):
        """C10: numbering, return value, nothing else changed (the model compare does the rest)."""
        self._count_owned("C10")
        acl = slot["acl"]
        start, step = (10, 10) if op.get("default") else (op["start"], op["step"])
        lvs = leaves(acl)
        want = [r.seq for r in exp.model.flat()]
        got = [x.sequence for x in lvs]
        if got != want:
            self._fail("C10", "C10.numbers", f"resequence({start},{step}) numbered {got[:12]}, "
                                             f"want {want[:12]}")
        want_ret = want[-1] if want else (start if start else 0)
        if res != want_ret:
            self._fail("C10", "C10.return", f"resequence({start},{step}) returned {res}, last "
                                            f"number is {want_ret}")
        if any(x.sequence > SEQ_MAX for x in lvs) or (res or 0) > SEQ_MAX:
            self._fail("C10", "C10.overflow", "normally returning call left a number > 2**32-1")
        if start + (len(lvs) - 1) * max(step, 0) >= SEQ_MAX - 1 and start:
            self.probes["overflow_boundary_hit"] += 1
        if [norm(x.note) for x in lvs] != self._pre_notes:
            self._fail("C10", "C10.only-numbers", "resequence changed notes of entries")
        # nothing but the numbers changed: compare text with numbers stripped
        def strip(text):
            out = []
            for ln in text.split("\n")[1:]:
                toks = ln.split()
                if toks and toks[0].isdigit():
                    toks = toks[1:]
                out.append(" ".join(toks))
            return out
        if strip(pre_text) != strip(acl.line) or pre_text.split("\n")[0] != acl.line.split("\n")[0]:
            self._fail("C10", "C10.only-numbers", f"resequence changed more than the numbers:\n"
                                                  f"{pre_text}\n---\n{acl.line}")

    def _oracle_delete_shadow(self, slot, op, res, m):
        """C04 (DESIGN 7/C04 O1-O5).  Returns the model with the adopted removal."""
        self._count_owned("C04")
        acl = slot["acl"]
        k = op["op"]
        pre = m.flat()
        attr = alpha_attr(acl)
        post = attr.flat()
        if k == "shadow_triple":
            r0, r1, r2, unchanged = res
            if r1 != r0:
                self._fail("C04", "C04.report", f"delete_shadow returned {r1}, shading just before "
                                                f"returned {r0}")
            if r2 != {} or not unchanged:
                self._fail("C04", "C04.second-call", f"second delete_shadow found {r2} "
                                                     f"(changed={not unchanged})")
        # survivors: post must be pre with only ACEs removed (greedy subsequence match)
        removed = []
        j = 0
        for i, r in enumerate(pre):
            if j < len(post) and post[j].den() == r.den():
                j += 1
                continue
            if r.kind != "ace":
                self._fail("C04", "C04.survivors", f"remark / non-ACE item {i} disappeared or "
                                                   f"changed: {r.den()}")
            removed.append(i)
        if j != len(post):
            self._fail("C04", "C04.survivors", f"result is not the original list with ACEs "
                                               f"removed (extra or reordered item at {j}): "
                                               f"{post[j].den()}")
        if removed:
            self.probes["shadow_removed_ge1"] += 1
        keep_notes = [n for i, n in enumerate(self._pre_notes) if i not in set(removed)]
        if [norm(x.note) for x in leaves(acl)] != keep_notes:
            self._fail("C04", "C04.survivors", "delete_shadow changed notes of remaining items")
        # every removed ACE is covered by an earlier ACE of the same action
        for i in removed:
            r = pre[i]
            ok = False
            unknown = False
            for t in pre[:i]:
                if t.kind != "ace" or t.action != r.action:
                    continue
                c = rule_covers(t, r)
                if c is None:
                    unknown = True
                elif c:
                    ok = True
                    break
            if not ok and not unknown:
                tops = [t for t in pre[:i] if t.kind == "ace" and t.action == r.action]
                empty_top = any((p is not None and not p.intervals())
                                for t in tops for p in (t.sport, t.dport))
                self._fail("C04", "C04.cover",
                           f"removed ACE #{i} {r.den()} is not covered by any earlier ACE of the "
                           f"same action\n{self._model_text(pre)}", empty_port_top=empty_top)
            if any(p.kind == "ace" and p.action != r.action for p in pre[:i]):
                self.probes["removed_under_deny_interleave"] += 1
        # the skip list: a removed entry needs a covering entry above it through a pair the skip
        # list does not exclude (judged for single-item lists, whose meaning is unambiguous)
        skip = op.get("skip") or []
        if removed and len(skip) == 1:
            def ncw(a):
                return (not a.group) and (a.cube.wildmask() & (a.cube.wildmask() + 1)) != 0

            def skipped(t, r):
                for ta, ra in ((t.src, r.src), (t.dst, r.dst)):
                    if skip == ["addrgroup"] and (ta.group or ra.group):
                        return True
                    if skip == ["nc_wildcard"] and (ncw(ta) or ncw(ra)):
                        return True
                return False

            for i in removed:
                r = pre[i]
                tops = [t for t in pre[:i] if t.kind == "ace" and t.action == r.action
                        and rule_covers(t, r) in (True, None)]
                if tops and all(skipped(t, r) for t in tops):
                    self._fail("C17", "C17.skip-respected",
                               f"delete_shadow(skip={skip}) removed ACE #{i} {r.den()} although "
                               f"every covering entry above it involves a skipped address kind")
        # C17 only: the reference model of the operation predicts the removal of a *plain* entry
        # (no address group, no TCP flags, port sets not empty) that a plain earlier entry of the
        # same action covers - the group-free core of the operation's specification
        if self.prop == "C17" and not skip:
            def plain(x):
                return x.kind == "ace" and not x.src.group and not x.dst.group and not x.flags \
                    and all(p is None or p.intervals() for p in (x.sport, x.dport))
            gone = set(removed)
            for i, r in enumerate(pre):
                if i in gone or not plain(r):
                    continue
                for t in pre[:i]:
                    if (t.kind == "ace" and (t.sport is not None and r.sport is None
                                             or t.dport is not None and r.dport is None)):
                        # "every port" written as an expression above "no port restriction":
                        # not predicted (the specification speaks about port sets of both)
                        continue
                    if plain(t) and t.action == r.action and rule_covers(t, r) is True:
                        self._fail("C17", "C17.shadow-predicted",
                                   f"delete_shadow() left ACE #{i} {r.den()} although the plain "
                                   f"earlier entry {t.den()} covers it\n{self._model_text(pre)}")
            self.probes["shadow_prediction_checked"] += 1
        # independent cross-check: first-match decision of witness packets unchanged
        if removed:
            survivors = [r for i, r in enumerate(pre) if i not in set(removed)]
            npk = 0
            for r in pre:
                for pkt in witness_packets(r):
                    a, b = first_match(pre, pkt), first_match(survivors, pkt)
                    npk += 1
                    if a is not None and b is not None and a != b:
                        self._fail("C04", "C04.decision",
                                   f"packet {pkt} is decided {a} before and {b} after "
                                   f"delete_shadow\n{self._model_text(pre)}")
            self.probes["witness_packets"] += npk
        # adopt the removal, predict the structure
        m2 = m.clone()
        keep = [r for i, r in enumerate(m2.flat()) if i not in set(removed)]
        any_shading = bool(res[1] if k == "shadow_triple" else res)
        if any_shading:
            if m2.group_by:
                m2.blocks = group_blocks(keep, m2.group_by)
            else:
                m2.blocks = [Block([r], grouped=False, seq=r.seq) for r in keep]
        elif removed:
            self._fail("C04", "C04.report", "entries removed although the report is empty")
        return m2

    @staticmethod
    def _model_text(rules):
        return "\n".join(f"  {i}: {r.den()}" for i, r in enumerate(rules))[:1500]

    def _oracle_ungroup_ports(self, slot, op, m, pre_leaves, identity=True):
        """C19: in place, one port per side, fields kept, union == original, unsplit = same object."""
        self._count_owned("C19")
        acl = slot["acl"]
        post_leaves = leaves(acl)
        post = alpha_attr(acl).flat()
        k = op["op"]
        if identity:
            # the split puts new entries in place of the original; the original object - a caller
            # or another ACL may still hold it - is not edited
            for x, ln in zip(pre_leaves, self._pre_leaf_lines):
                if x.line != ln:
                    self._fail("C19", "C19.ace-mutated",
                               f"{k} edited the entry object it replaced: {ln!r} -> {x.line!r}")
        if k == "ungroup_ports_group":
            n = len(m.blocks)
            if not n or not m.blocks[op["i"] % n].grouped:
                return
            lo = sum(len(b.rules) for b in m.blocks[: op["i"] % n])
            hi = lo + len(m.blocks[op["i"] % n].rules)
        else:
            lo, hi = 0, len(m.flat())
        pre = m.flat()
        j = 0
        for i, r in enumerate(pre):
            if not (lo <= i < hi) or not needs_split(r):
                if j >= len(post) or post[j].den() != r.den():
                    self._fail("C19", "C19.position", f"entry {i} that needs no split moved or "
                                                      f"changed: {r.den()}")
                if identity and (k == "ungroup_ports" or lo <= i < hi):
                    if post_leaves[j] is not pre_leaves[i]:
                        self._fail("C19", "C19.same-object", f"entry {i} needs no splitting but "
                                                             f"was replaced by another object")
                j += 1
                continue
            self.probes["split_happened"] += 1
            ns = len(r.sport.operands) if r.sport and r.sport.op in ("eq", "neq") else 1
            nd = len(r.dport.operands) if r.dport and r.dport.op in ("eq", "neq") else 1
            run = post[j: j + ns * nd]
            is_neq = any(p is not None and p.op == "neq" and len(p.operands) > 1
                         for p in (r.sport, r.dport))
            disc = dict(operator="neq" if is_neq else "eq")
            if len(run) != ns * nd:
                self._fail("C19", "C19.count", f"entry {i}: {len(run)} entries for {ns}x{nd} ports",
                           **disc)
            union_s, union_d = (), ()
            pairs = set()
            from .model import ALL_PORTS, iv_union
            for q in run:
                if q.kind != "ace" or (q.seq, q.action, q.proto, q.src.den(), q.dst.den(),
                                       q.flags, q.logs) != (r.seq, r.action, r.proto,
                                                            r.src.den(), r.dst.den(), r.flags,
                                                            r.logs):
                    self._fail("C19", "C19.fields", f"entry {i}: split entry changed a field "
                                                    f"other than the port: {q.den()}", **disc)
                for side, orig in (("sport", r.sport), ("dport", r.dport)):
                    p = getattr(q, side)
                    if (p is None) != (orig is None):
                        self._fail("C19", "C19.fields", f"entry {i}: {side} appeared/vanished",
                                   **disc)
                    if p is not None and p.op in ("eq", "neq") and len(p.operands) != 1:
                        self._fail("C19", "C19.single", f"entry {i}: {side} still lists "
                                                        f"{len(p.operands)} ports", **disc)
                    if p is not None and orig.op not in ("eq", "neq") and \
                            (p.op, p.operands) != (orig.op, orig.operands):
                        self._fail("C19", "C19.fields", f"entry {i}: {side} {orig} changed",
                                   **disc)
                sp = ALL_PORTS if q.sport is None else q.sport.intervals()
                dp = ALL_PORTS if q.dport is None else q.dport.intervals()
                pairs.add((sp, dp))
                union_s, union_d = iv_union(union_s, sp), iv_union(union_d, dp)
            # union of packet sets == original: exact for products when every (s,d) pair of the
            # cross product of the original's atoms is present exactly
            o_sp = ALL_PORTS if r.sport is None else r.sport.intervals()
            o_dp = ALL_PORTS if r.dport is None else r.dport.intervals()
            exact = self._union_equals(pairs, o_sp, o_dp)
            if not exact:
                self._fail("C19", "C19.union",
                           f"entry {i}: union of the split entries' packet sets != original "
                           f"({r.sport} / {r.dport}); ports covered src={union_s[:4]} "
                           f"dst={union_d[:4]}", **disc)
            j += len(run)
        if j != len(post):
            self._fail("C19", "C19.position", f"extra entries after splitting ({len(post)} vs {j})")
        # independent cross-check: every witness packet keeps its first-match decision
        npk = 0
        for r in pre:
            if not needs_split(r) or npk > 4000:
                continue
            for pkt in witness_packets(r):
                a, b = first_match(pre, pkt), first_match(post, pkt)
                npk += 1
                if a is not None and b is not None and a != b:
                    self._fail("C19", "C19.decision", f"packet {pkt} is decided {a} before and "
                                                      f"{b} after the split")
        self.probes["witness_packets"] += npk

    @staticmethod
    def _union_equals(pairs, o_sp, o_dp) -> bool:
        """Is the union of products sp x dp equal to o_sp x o_dp?  Decided on the grid induced by
        all interval end points (exact)."""
        from .model import iv_contains
        def cuts(axis_sets):
            pts = {1, 65536}
            for iv in axis_sets:
                for lo, hi in iv:
                    pts.add(lo)
                    pts.add(hi + 1)
            pts = sorted(pts)
            return [(a, b - 1) for a, b in zip(pts, pts[1:])]
        xs = cuts([o_sp] + [p[0] for p in pairs])
        ys = cuts([o_dp] + [p[1] for p in pairs])
        if len(xs) * len(ys) > 40000:
            xs, ys = xs[:200], ys[:200]
        for xa, _ in xs:
            in_os = iv_contains(o_sp, xa)
            for ya, _ in ys:
                want = in_os and iv_contains(o_dp, ya)
                got = any(iv_contains(sp, xa) and iv_contains(dp, ya) for sp, dp in pairs)
                if want != got:
                    return False
        return True

    def _oracle_tcam(self, slot, res):
        self._count_owned("C15")
        want = 1
        for r in slot["m"].flat():
            if r.kind != "ace":
                continue
            s = len(r.src.members or ()) if r.src.group else 1
            d = len(r.dst.members or ()) if r.dst.group else 1
            want += max(1, s) * max(1, d)
        if res != want:
            self._fail("C15", "C15.tcam", f"tcam_count()={res}, formula gives {want}")

    def _oracle_platform(self, slot, op, m, pre_text):
        """C02 O1/O2 are the refinement compare (attributed to C02 by check_state); here: probes
        and the explicit 'kept' list."""
        self._count_owned("C02")
        if m.group_by and any(r.kind == "ace" and (r.src.group or r.dst.group) for r in m.flat()):
            self.probes["flip_on_grouped_with_addrgroup"] += 1
        if m.platform != op["p"]:
            self.probes["flip_changes_platform"] += 1

    def _oracle_conservation(self, slot, op, m, pre_text):
        """C15: nothing added, dropped or duplicated; text unchanged for group/ungroup with
        distinct headings."""
        self._count_owned("C15")
        k = op["op"]
        acl = slot["acl"]
        pre = [" ".join(ln.split()) for ln in pre_text.split("\n")[1:]]
        post = [" ".join(ln.split()) for ln in acl.line.split("\n")[1:]]
        heads = [r.text for r in m.flat() if r.kind == "remark"]
        prefix = op.get("prefix") if k == "group" else m.group_by
        hs = [t for t in heads if prefix and t.startswith(prefix)]
        dup = len(hs) != len(set(hs))
        if dup:
            self.probes["dup_heading"] += 1
        if Counter(pre) != Counter(post):
            lost = list((Counter(pre) - Counter(post)).elements())[:3]
            added = list((Counter(post) - Counter(pre)).elements())[:3]
            self._fail("C15", "C15.conservation",
                       f"{k} {self._brief(op)}: entries lost {lost} / added {added}\n{pre_text}"
                       f"\n---\n{acl.line}", dup_heading=dup)
        if k in ("group", "ungroup") and not dup and pre != post:
            self._fail("C15", "C15.order", f"{k} reordered entries although headings are distinct:"
                                           f"\n{pre_text}\n---\n{acl.line}", opkind=k)

    # ------------------------------------------------------------- standalone objects
    def _op_conv_obj(self, op):
        """C02: a single ACE / address / group member / address group converted on its own."""
        self._count_owned("C02")
        cls = {"Ace": Ace, "Address": Address, "AddressAg": AddressAg, "AddrGroup": AddrGroup}[
            op["cls"]]
        a, b = op["platform"], ("nxos" if op["platform"] == "ios" else "ios")
        kw = dict(platform=a)
        try:
            obj = cls(op["line"], **kw)
        except DOCUMENTED:
            return "noop-rejected"
        rd_a, rd_b = Reader(a, "0", strict=True), Reader(b, "0", strict=True)
        def meaning(o, rd):
            if op["cls"] == "Ace":
                return rd.ace_or_remark(o.line).den()
            if op["cls"] == "Address":
                return rd._addr(o.line.split(), 0)[0].den()
            if op["cls"] == "AddressAg":
                return self._member_cube(o.line, rd.platform)
            return [self._member_cube(" ".join(ln.split()), rd.platform)
                    for ln in o.line.split("\n")[1:]]
        try:
            before = meaning(obj, rd_a)
        except (ReadError, ValueError, IndexError):
            return "noop-unreadable"
        multi = op["cls"] == "Ace" and needs_split(Reader(a, "0", strict=True)
                                                   .ace_or_remark(op["line"]))
        try:
            obj.platform = op.get("spell") or b
        except DOCUMENTED as ex:
            if multi and b == "nxos":
                self.faults["abort[conv_obj]"] += 1
                # documented: a single ACE cannot hold several ports
                return self._ace_conv_retry(obj, op["line"], a, b, rd_a, rd_b)
            if op["cls"] in ("AddressAg", "AddrGroup") and b == "ios" and op.get("ncw"):
                self.faults["abort[conv_obj]"] += 1
                if op["cls"] == "AddrGroup":
                    return self._conv_retry(obj, a, b)
                return type(ex).__name__  # non-contiguous member cannot become a subnet
            self._fail("C02", "C02.converts", f"{op['cls']}({op['line']!r}).platform={b} raised "
                                              f"{type(ex).__name__}: {ex}", cls=op["cls"])
        try:
            after = meaning(obj, rd_b)
        except (ReadError, ValueError, IndexError) as ex:
            self._fail("C02", "C02.valid-target", f"{op['cls']} converted to {b} renders "
                                                  f"{obj.line!r}: {ex}", cls=op["cls"])
        if before != after:
            self._fail("C02", "C02.meaning", f"{op['cls']}({op['line']!r}) {a}->{b} changed "
                                             f"meaning: {before} -> {after} ({obj.line!r})",
                       cls=op["cls"])
        t1 = obj.line
        obj.platform = a
        obj.platform = b
        if obj.line != t1:
            self._fail("C02", "C02.converge", f"{op['cls']} there/back/there: {t1!r} vs "
                                              f"{obj.line!r}", cls=op["cls"])
        return "ok"

    def _ace_conv_retry(self, ace, line, a, b, rd_a, rd_b):
        """After the documented refusal (several ports cannot go to NX-OS in one entry) the
        caller cuts the port lists down to one port through the public Port.items view and
        converts again: that must convert the entry (meaning of the edited entry, target syntax,
        platform of every part)."""
        def cut(x):
            for port in (x.srcport, x.dstport):
                if port.operator in ("eq", "neq") and len(port.items) > 1:
                    port.items = [port.items[0]]
        try:
            ref = Ace(line, platform=a)
            cut(ref)
            want = rd_a.ace_or_remark(ref.line).den()
        except (DOCUMENTED + (ReadError, IndexError)):
            return "ValueError"
        try:
            cut(ace)
            ace.platform = b
        except DOCUMENTED as ex:
            self._fail("C02", "C02.converts", f"Ace({line!r}): conversion to {b} repeated after "
                                              f"the port lists were cut to one port raised "
                                              f"{type(ex).__name__}: {ex}", cls="Ace")
        try:
            got = rd_b.ace_or_remark(ace.line).den()
        except (ReadError, ValueError, IndexError) as ex:
            self._fail("C02", "C02.valid-target", f"Ace converted to {b} on retry renders "
                                                  f"{ace.line!r}: {ex}", cls="Ace")
        parts = [ace.protocol, ace.srcaddr, ace.srcport, ace.dstaddr, ace.dstport, ace.option]
        if got != want or ace.platform != b or any(p_.platform != b for p_ in parts):
            self._fail("C02", "C02.meaning", f"Ace({line!r}) converted to {b} on retry: "
                                             f"{ace.line!r} (platforms "
                                             f"{[p_.platform for p_ in parts]})", cls="Ace")
        t1 = ace.line
        ace.platform = a
        ace.platform = b
        if ace.line != t1:
            self._fail("C02", "C02.converge", f"Ace there/back/there after retry: {t1!r} vs "
                                              f"{ace.line!r}", cls="Ace")
        self.probes["ace_conv_retry_after_refusal"] += 1
        return "retried"

    def _conv_retry(self, ag, a, b):
        """After the documented refusal (a non-contiguous member cannot become an IOS subnet) the
        caller removes the offending members through the list API and converts again: that must
        convert the remaining members."""
        keep = [it for it in ag.items if it.ipnet is not None]
        want = []
        for it in keep:
            n = it.ipnet
            want.append((int(n.network_address), int(n.netmask)))
        if not keep:
            return "ValueError"
        for it in list(ag.items):
            if it.ipnet is None:
                ag.items.remove(it)
        try:
            ag.platform = b
        except DOCUMENTED as ex:
            self._fail("C02", "C02.converts", f"AddrGroup: conversion to {b} repeated after the "
                                              f"offending member was removed raised "
                                              f"{type(ex).__name__}: {ex}", cls="AddrGroup")
        try:
            got = [self._member_cube(" ".join(ln.split()), b) for ln in ag.line.split("\n")[1:]]
        except (ValueError, IndexError) as ex:
            self._fail("C02", "C02.valid-target", f"AddrGroup converted to {b} on retry renders "
                                                  f"{ag.line!r}: {ex}", cls="AddrGroup")
        exp_ = [("c", nw, mk) for nw, mk in want]
        if got != exp_ or ag.platform != b or any(it.platform != b for it in ag.items):
            self._fail("C02", "C02.meaning", f"AddrGroup converted to {b} on retry: members "
                                             f"{ag.line!r} (platforms "
                                             f"{[it.platform for it in ag.items]})",
                       cls="AddrGroup")
        self.probes["conv_retry_after_refusal"] += 1
        return "retried"

    @staticmethod
    def _member_cube(line, platform):
        """Address-group member line -> cube (IOS members carry subnet masks)."""
        from ipaddress import IPv4Address
        from .model import ALL32, Cube
        toks = line.split()
        if toks and toks[0].isdigit() and len(toks) > 1 and not ("." in toks[0]):
            toks = toks[1:]
        if toks[0] == "host":
            return ("c", int(IPv4Address(toks[1])), ALL32)
        if "/" in toks[0]:
            a, ln = toks[0].split("/")
            wild = (1 << (32 - int(ln))) - 1
            c = Cube.wild(int(IPv4Address(a)), wild)
            return ("c", c.value, c.care)
        a, m = int(IPv4Address(toks[0])), int(IPv4Address(toks[1]))
        if platform == "ios":
            m = ~m & ALL32
        c = Cube.wild(a, m)
        return ("c", c.value, c.care)

    def _op_ace_ungroup_ports(self, op):
        """C19 on a single Ace: returns the split list, leaves the object alone."""
        self._count_owned("C19")
        try:
            r = Reader("ios", "0", strict=True).ace_or_remark(op["line"])
            ace = Ace(op["line"], platform="ios")
        except (ReadError, *DOCUMENTED):
            return "noop"
        before = ace.line
        out = ace.ungroup_ports()
        if ace.line != before:
            self._fail("C19", "C19.ace-mutated", "Ace.ungroup_ports() changed the source entry")
        want = split_rule(r)
        if not needs_split(r):
            if len(out) != 1 or out[0] is not ace:
                self._fail("C19", "C19.same-object", "entry needs no splitting but was replaced")
            return "ok"
        got = [Reader("ios", "0", strict=True).ace_or_remark(o.line) for o in out]
        is_neq = any(p is not None and p.op == "neq" and len(p.operands) > 1
                     for p in (r.sport, r.dport))
        disc = dict(operator="neq" if is_neq else "eq")
        from .model import ALL_PORTS
        pairs = {(ALL_PORTS if q.sport is None else q.sport.intervals(),
                  ALL_PORTS if q.dport is None else q.dport.intervals()) for q in got}
        for q in got:
            for p in (q.sport, q.dport):
                if p is not None and p.op in ("eq", "neq") and len(p.operands) != 1:
                    self._fail("C19", "C19.single", f"{q.den()} still lists several ports", **disc)
            if (q.seq, q.action, q.proto, q.src.den(), q.dst.den(), q.flags, q.logs) != \
                    (r.seq, r.action, r.proto, r.src.den(), r.dst.den(), r.flags, r.logs):
                self._fail("C19", "C19.fields", f"split entry changed another field: {q.den()}",
                           **disc)
        o_sp = ALL_PORTS if r.sport is None else r.sport.intervals()
        o_dp = ALL_PORTS if r.dport is None else r.dport.intervals()
        if not self._union_equals(pairs, o_sp, o_dp):
            self._fail("C19", "C19.union", f"Ace({op['line']!r}).ungroup_ports(): union of the "
                                           f"split entries != original", **disc)
        if len(got) != len(want):
            self._fail("C19", "C19.count", f"{len(got)} entries, want {len(want)}", **disc)
        self.probes["split_happened"] += 1
        return "ok"

    def _op_ag_resequence(self, op):
        """C10 on an address group."""
        self._count_owned("C10")
        head = "object-group ip address G" if op["platform"] == "nxos" else \
            "object-group network G"
        text = "\n".join([head] + ["  " + ln for ln in op["lines"]])
        try:
            ag = AddrGroup(text, platform=op["platform"])
        except DOCUMENTED:
            return "noop"
        n = len(ag.items)
        if n != len(op["lines"]) or not n:
            return "noop"
        nested_before = []
        for it in ag.items:
            if it.type == "addrgroup" and op.get("nested"):
                it.items = list(op["nested"])
                nested_before.append([x.line for x in it.items])
        before = [" ".join(x.line.split()[1:]) if x.sequence else x.line for x in ag.items]
        start, step = op["start"], op["step"]
        from .aclref import reseq_predict
        err, nums, _, ret = reseq_predict([n], start, step)
        try:
            res = ag.resequence(start, step)
        except Exception as ex:
            if err is None or not isinstance(ex, ValueError):
                self._fail("C10", "C10.error-iff", f"AddrGroup.resequence({start},{step}) on {n} "
                                                   f"members raised {type(ex).__name__}: {ex}",
                           obj="AddrGroup")
            self.faults["abort[ag_resequence]"] += 1
            return "ValueError"
        if err is not None:
            self._fail("C10", "C10.error-iff", f"AddrGroup.resequence({start},{step}) returned, "
                                               f"model predicts ValueError", obj="AddrGroup")
        got = [x.sequence for x in ag.items]
        if got != nums or res != ret:
            self._fail("C10", "C10.numbers", f"AddrGroup.resequence({start},{step}): {got} "
                                             f"ret={res}, want {nums} ret={ret}", obj="AddrGroup")
        after = [" ".join(x.line.split()[1:]) if x.sequence else x.line for x in ag.items]
        nested_after = [[x.line for x in it.items] for it in ag.items
                        if it.type == "addrgroup" and op.get("nested")]
        if nested_before != nested_after:
            self._fail("C10", "C10.only-numbers", f"AddrGroup.resequence changed the members of "
                                                  f"a referenced group: {nested_before} -> "
                                                  f"{nested_after}", obj="AddrGroup")
        if before != after:
            self._fail("C10", "C10.only-numbers", f"AddrGroup.resequence changed members: "
                                                  f"{before} -> {after}", obj="AddrGroup")
        # numbers are really in the text, in order
        tl = [ln.split()[0] for ln in ag.line.split("\n")[1:]]
        if start and tl != [str(x) for x in nums]:
            self._fail("C10", "C10.text-numbers", f"rendered group numbers {tl} != {nums}",
                       obj="AddrGroup")
        return "ok"

    def _op_nested_resequence(self, op):
        """C10 on groups nested in groups (built through the list API): "any nesting of non-empty
        groups and single items".  The tree is a literal: a line, or a list of trees."""
        self._count_owned("C10")
        plat = op["platform"]
        kw = dict(platform=plat)

        def build(tree):
            if isinstance(tree, str):
                body = tree.split(None, 1)[1] if tree.split()[0].isdigit() else tree
                return Remark(tree, **kw) if body.startswith("remark ") else Ace(tree, **kw)
            first = [build(t) for t in tree if isinstance(t, str)]
            g = AceGroup(items=first[:1] or [], **kw)
            seen_first = False
            for t in tree:
                if isinstance(t, str) and not seen_first and first:
                    seen_first = True
                    continue  # already inside
                g.append(build(t))
            return g

        def flat(items):
            for it in items:
                if isinstance(it, AceGroup):
                    yield from flat(it.items)
                else:
                    yield it

        def shape(items):
            return [shape(it.items) if isinstance(it, AceGroup) else 0 for it in items]

        try:
            tops = [build(t) for t in op["tree"]]
            if op["root"] == "Acl":
                root = Acl(name="NEST", items=[], **kw)
                for t in tops:
                    root.append(t)
            else:
                root = AceGroup(items=[], **kw)
                for t in tops:
                    root.append(t)
        except DOCUMENTED:
            return "noop"
        lv = list(flat(root.items))
        if not lv or any(isinstance(g, AceGroup) and not list(flat(g.items))
                         for g in root.items):
            return "noop"

        def strip(x):
            toks = x.line.split()
            return " ".join(toks[1:] if toks[0].isdigit() else toks)

        before, ids, shp = [strip(x) for x in lv], [id(x) for x in lv], shape(root.items)
        notes = [norm(x.note) for x in lv]
        start, step = op["start"], op["step"]
        from .aclref import reseq_predict
        err, nums, _, ret = reseq_predict([len(lv)], start, step)
        depth = op.get("depth", 0)
        try:
            res = root.resequence(start, step)
        except Exception as ex:
            if err is None or not isinstance(ex, ValueError):
                self._fail("C10", "C10.error-iff",
                           f"{op['root']}.resequence({start},{step}) on nested groups {shp} "
                           f"raised {type(ex).__name__}: {ex}", obj="nested")
            self.faults["abort[nested_resequence]"] += 1
            return "ValueError"
        if err is not None:
            self._fail("C10", "C10.error-iff", f"{op['root']}.resequence({start},{step}) on nested "
                                               f"groups {shp} returned, model predicts ValueError",
                       obj="nested")
        lv2 = list(flat(root.items))
        got = [x.sequence for x in lv2]
        if got != nums or res != ret:
            self._fail("C10", "C10.numbers", f"{op['root']}.resequence({start},{step}) on nested "
                                             f"groups {shp}: {got} ret={res}, want {nums} "
                                             f"ret={ret}", obj="nested")
        if [id(x) for x in lv2] != ids or [strip(x) for x in lv2] != before or \
                shape(root.items) != shp or [norm(x.note) for x in lv2] != notes:
            self._fail("C10", "C10.only-numbers", f"{op['root']}.resequence on nested groups "
                                                  f"changed more than the numbers", obj="nested")
        if any(x > SEQ_MAX for x in got) or res > SEQ_MAX:
            self._fail("C10", "C10.overflow", "normally returning call left a number > 2**32-1",
                       obj="nested")
        if op["root"] == "Acl" and start:
            tl = [ln.split()[0] for ln in root.line.split("\n")[1:]]
            if tl != [str(x) for x in nums]:
                self._fail("C10", "C10.text-numbers", f"rendered numbers {tl} != {nums}",
                           obj="nested")
        self.probes[f"nested_resequence_depth{depth}"] += 1
        return "ok"

    # ------------------------------------------------------------- generation
    SEED_ACLS = [
        dict(platform="ios", version="0", name="ACL1", indent="  ", group_by="", port_nr=False,
             protocol_nr=False, lines=[
                 "10 remark = web", "20 permit tcp any eq 1024 1025 host 10.0.0.1 eq www 443",
                 "30 permit tcp any host 10.0.0.1 eq www", "40 remark = dns",
                 "50 permit udp 10.0.0.0 0.0.0.255 any eq domain", "60 deny ip any any log"],
             members={}),
        dict(platform="ios", version="0", name="ACL2", indent=" ", group_by="= ", port_nr=False,
             protocol_nr=False, lines=[
                 "permit icmp any any", "remark = C-1", "permit tcp object-group G1 any eq 22 23",
                 "deny tcp any any eq 22", "remark note", "remark = C-2",
                 "permit ip 10.0.0.0 0.0.3.3 object-group G2", "permit ip host 10.0.0.1 any"],
             members={"G1": ["10.1.0.0 0.0.0.255", "host 10.2.0.1"], "G2": ["10.3.0.0 0.0.255.255"]}),
        dict(platform="nxos", version="0", name="ACL3", indent="  ", group_by="", port_nr=True,
             protocol_nr=False, lines=[
                 "10 permit tcp 10.0.0.0/24 any eq 80", "20 permit tcp 10.0.0.0/25 any eq 80",
                 "30 remark = x", "40 deny udp any addrgroup G1 range 100 200",
                 "50 permit ip any any"],
             members={"G1": ["10.1.0.0/24"]}),
    ]
    PREFIX_KINDS = ["set_platform", "flip3", "set_port_nr", "set_protocol_nr", "resequence",
                    "group", "ungroup", "sort", "reverse", "permute_setter", "pop", "insert",
                    "items_self", "reparse", "copy", "export_import", "shadow_triple",
                    "ungroup_ports", "tcam", "set_item_seq", "items_lines", "remove"]

    @classmethod
    def prefix_plan(cls, tier):
        plan = []
        acls = range(len(cls.SEED_ACLS))
        for a in acls:
            for k in cls.PREFIX_KINDS:
                plan.append((a, [k]))
        for a in (acls if tier == "thorough" else [1]):
            for k1 in cls.PREFIX_KINDS:
                for k2 in cls.PREFIX_KINDS:
                    plan.append((a, [k1, k2]))
        if tier == "thorough":
            core = ["set_platform", "set_port_nr", "resequence", "group", "ungroup", "sort",
                    "permute_setter", "insert", "copy", "shadow_triple", "ungroup_ports", "reparse"]
            for k1 in core:
                for k2 in core:
                    for k3 in core:
                        plan.append((1, [k1, k2, k3]))
        return plan

    def _memo_schedule(self, st):
        if not (self.cfg.get("memo_faults") and self.memo.present):
            return []
        f = st.f
        return [[i, f.choice(["clear", "bypass"])] for i in range(24)
                if f.random() < self.cfg["memo_rate"]]

    def _gen_create(self, w):
        cfg = self.cfg
        platform = cfg["platform"]
        type_ = "standard" if cfg.get("standard") else "extended"
        gcfg = dict(cfg)
        lines, specs = gen.gen_acl_lines(w, gcfg, platform, cfg["version"])
        if type_ == "standard":
            lines = []
            for i, sp in enumerate(specs):
                if sp is None:
                    lines.append(f"remark r{i}")
                    continue
                if sp["src"][0] == "group":
                    sp = dict(sp, src=("any",))
                lines.append(gen.render_ace(sp, platform, standard=True))
        members = {}
        if cfg["p_group"] and cfg["members_known"]:
            members = gen.gen_member_sets(w, platform)
        self._specs = [s for s in specs if s]
        first = getattr(self, "_first_create", None)
        if first is not None and first["members"] and w.random() < 0.5:
            # "the same templated ACL on a second device": the very lines of the first ACL, the
            # same group names, other members (what the text does not carry)
            self.probes["template_twin_created"] += 1
            return dict(copy.deepcopy(first), name="DEV2",
                        members=gen.gen_member_sets(w, platform))
        op = dict(op="create_acl", platform=platform, version=cfg["version"], type=type_,
                  name=w.choice(["A1", "ACL-2", "in_x"]), indent=cfg["indent"],
                  group_by=cfg["group_by"], port_nr=cfg["port_nr"],
                  protocol_nr=cfg["protocol_nr"], lines=lines, members=members)
        if first is None:
            self._first_create = copy.deepcopy(op)
        return op

    def _gen_create_cfg(self, w):
        """Two ACLs and the address groups they reference, as one device configuration."""
        cfg = self.cfg
        platform = cfg["platform"]
        gcfg = dict(cfg, p_group=max(cfg["p_group"], 0.3))
        acls_ = []
        for name in ("CFG1", "CFG2"):
            lines, specs = gen.gen_acl_lines(w, gcfg, platform, cfg["version"])
            acls_.append(dict(name=name, lines=lines))
            self._specs = [s_ for s_ in specs if s_]
        groups = {}
        for g in gen.GROUP_NAMES:
            mem = []
            for _ in range(w.randint(1, 3)):
                k = w.choice([0, 2, 4, 8, 16])
                mask = (1 << k) - 1
                mem.append([gen._base(w) & ~mask & 0xFFFFFFFF, mask])
            groups[g] = mem
        return dict(op="create_cfg", platform=platform, version=cfg["version"], acls=acls_,
                    groups=groups, indent=cfg["indent"], group_by=cfg["group_by"],
                    port_nr=cfg["port_nr"], protocol_nr=cfg["protocol_nr"])

    def _gen_line(self, w, m):
        cfg = self.cfg
        specs = getattr(self, "_specs", [])
        if w.random() < 0.2:
            text = w.choice([f"{gen.HEAD}H{w.randint(1, 4)}", w.choice(gen.REMARK_WORDS)])
            line = f"remark {text}"
        else:
            if specs and w.random() < cfg["p_related"]:
                spec = gen.derive_ace(w, cfg, m.platform, w.choice(specs))
            else:
                spec = gen.gen_ace(w, cfg, m.platform)
            if m.platform != "ios":
                for side in ("sport", "dport"):
                    p = spec[side]
                    if p and p[0] in ("eq", "neq") and len(p[1]) > 1:
                        spec[side] = (p[0], p[1][:1])
            specs.append(spec)
            self._specs = specs[-12:]
            if m.type == "standard":
                if spec["src"][0] == "group":
                    spec = dict(spec, src=("any",))
                line = gen.render_ace(spec, m.platform, standard=True)
            else:
                line = gen.render_ace(spec, m.platform, m.version, 0, cfg["names"])
        if cfg["numbered"] != "none" and w.random() < 0.7:
            line = f"{w.choice([5, 15, 25, 35, 100, 1000])} {line}"
        return line

    def next_op(self, st: Streams) -> dict:
        w, s = st.w, st.s
        cfg = self.cfg
        if not self.slots and cfg.get("from_config") and "seed_acl" not in cfg:
            return self._gen_create_cfg(w)
        if not self.slots:
            if "seed_acl" in cfg:
                return dict(op="create_acl", type="extended",
                            **copy.deepcopy(self.SEED_ACLS[cfg["seed_acl"]]))
            return self._gen_create(w)
        if cfg.get("two_clients") and len(self.slots) < 2 and s.random() < 0.25:
            op = self._gen_create(w)
            if op.get("name") == "DEV2":
                # both devices' ACLs go through the same operation, one after the other
                kind2 = {"C02": "set_platform", "C19": "ungroup_ports", "C04": "shadow_triple",
                         "C15": "tcam"}.get(self.prop) or s.choice(
                    ["set_platform", "ungroup_ports", "shadow_triple", "tcam"])
                fixed = {"p": "nxos" if cfg["platform"] == "ios" else "ios"} \
                    if kind2 == "set_platform" else {}
                self._plan = [(0, kind2, dict(fixed)), (1, kind2, dict(fixed))]
            return op
        if cfg.get("share_items") and len(self.slots) == 1 and s.random() < 0.2:
            return dict(op="share_items", name="SHARED",
                        group_by=s.choice(["", "", gen.HEAD, self.slots[0]["m"].group_by]))
        if "prefix_kinds" in cfg:
            i = getattr(self, "_pi", 0)
            self._pi = i + 1
            kind = cfg["prefix_kinds"][i % len(cfg["prefix_kinds"])]
        else:
            r = s.random()
            if cfg["gc_events"] and r < 0.03:
                return dict(op="gc_collect")
            if cfg["gc_events"] and r < 0.045 and len(self.slots) > 1:
                return dict(op="drop", t=s.randrange(2))
            if len(self.slots) > 1 and 0.10 <= r < 0.16:
                return dict(op="move_item", t=s.randrange(2), i=s.randint(0, 50),
                            j=s.randint(0, 50))
            if cfg["memo_faults"] and r < 0.06:
                return dict(op="memo_clear")
            if cfg["memo_faults"] and r < 0.10:
                return dict(op="memo_pressure", n=s.choice([5, 60, 140]))
            kinds = sorted(cfg["weights"])
            kind = s.choices(kinds, weights=[cfg["weights"][k] for k in kinds])[0]
        plan = getattr(self, "_plan", [])
        if plan:
            # follow-up of a query: change what the query depended on, then ask again
            t, kind, fixed = plan.pop(0)
            op = self._gen_op(kind, self.slots[t % len(self.slots)], st)
            op.update(fixed)
            if "p" in fixed:
                op.pop("spell", None)  # the long name was drawn for another target
            op["t"] = t
            op["memo"] = self._memo_schedule(st)
            return op
        t = s.randrange(len(self.slots))
        op = self._gen_op(kind, self.slots[t], st)
        if kind == "scribble_ipnets":
            self._plan = [(t, "shadow_triple", {})]
        if kind == "scribble_names":
            self._plan = [(t, "set_platform", {})]
        if kind == "set_item_seq" and self.prop in ("C02", "C19") and s.random() < 0.6:
            # numbers that do not ascend inside a block, then the conversion that splits entries
            self._plan = [(t, "set_platform", {})]
        if kind == "ungroup_ports" and self.prop in ("C19", "C17") and s.random() < 0.4:
            # split, put the very text of a split entry back in, change what the text does not
            # carry (group members), split again
            slot_ = self.slots[t]
            flat_ = slot_["m"].flat()
            lv_ = leaves(slot_["acl"])
            cands = [i_ for i_, r_ in enumerate(flat_) if r_.kind == "ace" and needs_split(r_)
                     and (r_.src.group or r_.dst.group)] if len(lv_) == len(flat_) else []
            if cands:
                i_ = s.choice(cands)
                self._plan = [(t, "insert", {"line": lv_[i_].line, "i": s.randint(0, 50)}),
                              (t, "set_members", {}), (t, "ungroup_ports", {})]
        if kind in ("ungroup_ports", "set_platform") and self.prop in ("C04", "C17") \
                and s.random() < 0.6:
            # entries produced by a split are entries like any other for the shadow removal
            self._plan = [(t, "shadow_triple", {})]
        if kind == "tcam" and s.random() < 0.5:
            self._plan = [(t, "set_members", {}), (t, "tcam", {})]
        if kind == "resequence" and self.prop in ("C15", "C17") and s.random() < 0.5:
            self._plan = [(t, "permute_popins", {}), (t, "permute_popins", {}),
                          (t, "sort", {"reverse": False, "key": None})]
            nl_ = len(self.slots[t]["m"].flat())
            if s.random() < 0.3:
                # ... and, before that, the middle reordered and the same renumbering once more:
                # first and last entry still carry the right numbers, the ones between do not
                self._plan[:0] = [(t, "permute_popins", {"i": 1, "j": 2}),
                                  (t, "resequence", {k_: op[k_] for k_ in op if k_ != "memo"})]
            elif cfg["aborts"] and nl_ >= 1 and s.random() < 0.5:
                # an entry appended behind the blocks, a renumbering that succeeds, one that is
                # refused because the last numbers do not fit, then reorder and sort: the refused
                # call must not spoil the order sort() works by
                self._plan[:0] = [
                    (t, "resequence", {"start": s.choice([1, 10, 100]),
                                       "step": s.choice([1, 5, 10]), "default": False}),
                    (t, "resequence", {"start": SEQ_MAX - nl_ + s.randint(1, nl_), "step": 1,
                                       "default": False})]
                op = self._gen_op("append", self.slots[t], st)
        elif kind == "resequence" and self.prop in ("C10", "C17") and s.random() < 0.3:
            self._plan = [(t, "set_item_seq", {}), (t, "resequence",
                                                    {k_: op[k_] for k_ in op if k_ != "memo"})]
        elif kind == "resequence" and self.prop in ("C10", "C17") and s.random() < 0.3:
            # the same renumbering once more on the reversed list: entries that still carry the
            # numbers of the first pass must not be mistaken for the ones being numbered
            self._plan = [(t, "reverse", {}), (t, "resequence",
                                               {k_: op[k_] for k_ in op if k_ != "memo"})]
        if self.prop in ("C15", "C17") and not getattr(self, "_plan", None) and kind in (
                "insert", "append", "extend", "set_ports", "ungroup_ports", "reverse",
                "permute_popins", "ungroup") and s.random() < 0.3:
            # entries that tie on their number are ordered by the entry ordering relation
            self._plan = [(t, "sort", {"reverse": False, "key": None})]
        if kind in ("shading", "shadow_of") and s.random() < 0.6 and any(
                r.kind == "ace" and (r.src.group or r.dst.group) for r in self.slots[t]["m"].flat()):
            self._plan = [(t, "set_members", {}), (t, "shadow_triple", {"skip": op["skip"]})]
        op["t"] = t
        op["memo"] = self._memo_schedule(st)
        return op

    def _gen_op(self, kind, slot, st):  # noqa: C901
        w, s = st.w, st.s
        cfg = self.cfg
        m = slot["m"]
        n = len(m.blocks)
        nl = len(m.flat())
        other = "nxos" if m.platform == "ios" else "ios"
        if kind in ("set_platform", "flip3"):
            p = other if s.random() < 0.8 else m.platform
            if m.type == "standard" and p == "nxos" and not cfg["aborts"]:
                p = "ios"
            op_ = dict(op=kind, p=p)
            if s.random() < 0.15:
                # the long platform names the library accepts mean the same platforms
                op_["spell"] = {"ios": "cisco_ios"}.get(p) or s.choice(["cisco_nxos", "cnx"])
            return op_
        if kind in ("set_port_nr", "set_protocol_nr"):
            return dict(op=kind, b=s.random() < 0.5)
        if kind == "set_type":
            ty = s.choice(["standard", "extended"])
            if not cfg["aborts"] and (m.platform == "nxos" or any(
                    r.kind == "ace" and r.src.group for r in m.flat())):
                ty = "extended"
            return dict(op=kind, ty=ty)
        if kind == "set_indent":
            return dict(op=kind, s=s.choice([" ", "  ", "    ", ""]))
        if kind == "set_name":
            return dict(op=kind, s=s.choice(["B1", "acl_in", "X-9"]))
        if kind == "set_io":
            return dict(op=kind, dir=s.choice(["in", "out"]),
                        vals=s.sample(["interface Eth1", "interface Eth2", "interface Vlan3"],
                                      s.randint(0, 2)))
        if kind == "resequence":
            if s.random() < 0.1:
                return dict(op=kind, default=True, start=10, step=10)
            step = s.choice([1, 1, 5, 10, 10, 100, 2 ** 31, s.randint(1, 1000)])
            span = max(nl - 1, 0) * step
            start = s.choice([0, 1, 10, 10, 100, SEQ_MAX - span, SEQ_MAX - span - 1,
                              s.randint(1, 10 ** 6)])
            if s.random() < 0.3:
                # numbers that cross a digit boundary inside the ACL (9 -> 10, 99 -> 100)
                step = s.choice([1, 2, 5])
                start = s.choice([5, 8, 9, 95, 98, 99, 995])
                span = max(nl - 1, 0) * step
            if cfg["aborts"]:
                step = s.choice([step, step, step, 0, -5, -1])
                start = s.choice([start, start, start, SEQ_MAX - span + 1, SEQ_MAX, SEQ_MAX + 1,
                                  -1, 2 ** 32 + 5])
            else:
                start = max(0, min(start, SEQ_MAX - span))
            return dict(op=kind, start=start, step=step)
        if kind == "resequence_group":
            i = s.randint(0, 50)
            nb = len(m.blocks[i % n].rules) if n else 1
            step = s.choice([1, 1, 5, 10, 2 ** 31])
            span = max(nb - 1, 0) * step
            start = s.choice([0, 1, 10, 100, SEQ_MAX - span, s.randint(1, 10 ** 6)])
            if cfg["aborts"]:
                step = s.choice([step, step, 0, -1])
                start = s.choice([start, start, SEQ_MAX - span + 1, SEQ_MAX + 1, -1])
            else:
                start = max(0, min(start, SEQ_MAX - span))
            return dict(op=kind, i=i, start=start, step=step)
        if kind == "group":
            return dict(op=kind, prefix=s.choice([gen.HEAD, gen.HEAD, gen.HEAD, "= H1", "zz", ""]))
        if kind == "sort":
            return dict(op=kind, reverse=s.random() < 0.25,
                        key=s.choice([None, None, None, "seq", "line"]))
        if kind == "permute_setter":
            return dict(op=kind, keys=[s.randint(0, 99) for _ in range(max(n, 1))],
                        as_=s.choice(["list", "list", "tuple", "gen"]))
        if kind == "items_self":
            return dict(op=kind, as_=s.choice(["list", "list", "tuple", "gen"]))
        if kind == "permute_popins":
            return dict(op=kind, i=s.randint(0, 50), j=s.randint(0, 50))
        if kind in ("pop", "delitem", "remove", "delete", "ungroup_ports_group"):
            return dict(op=kind, i=s.randint(0, 50))
        if kind == "insert":
            return dict(op=kind, i=s.randint(0, 50), line=self._gen_line(w, m))
        if kind == "append":
            return dict(op=kind, line=self._gen_line(w, m))
        if kind == "extend":
            return dict(op=kind, lines=[self._gen_line(w, m) for _ in range(s.randint(1, 3))])
        if kind in ("shading", "shadow_of", "delete_shadow", "shadow_triple"):
            skip = s.choice([[], [], [], ["addrgroup"], ["nc_wildcard"],
                             ["addrgroup", "nc_wildcard"]])
            return dict(op=kind, skip=skip)
        if kind == "set_item_seq":
            return dict(op=kind, i=s.randint(0, 50), j=s.randint(0, 50),
                        n=s.choice([0, 1, 5, 10, 15, 1000, SEQ_MAX]))
        if kind == "set_ports":
            cands = [(i, j, side, pm) for i, b in enumerate(m.blocks)
                     for j, r in enumerate(b.rules) if r.kind == "ace"
                     for side, pm in (("src", r.sport), ("dst", r.dport))
                     if pm is not None and pm.op == "eq"]
            if not cands:
                return dict(op=kind, i=0, j=0, side="dst", operator="eq", items=[80], via="items")
            i, j, side, pm = s.choice(cands)
            n_ = 1 if m.platform != "ios" else s.choice([1, 2, 2, 3])
            items = sorted(s.sample([21, 22, 25, 80, 443, 8080, 1, 65535], n_))
            return dict(op=kind, i=i, j=j, side=side, operator="eq", items=items,
                        via=s.choice(["items", "line"]))
        if kind in ("set_addr", "set_option"):
            cands = [(i, j) for i, b in enumerate(m.blocks) for j, r in enumerate(b.rules)
                     if r.kind == "ace"]
            i, j = s.choice(cands) if cands else (0, 0)
            if kind == "set_addr":
                a = gen.gen_addr(w, dict(cfg, p_group=0.0))
                while a[0] == "group":
                    a = gen.gen_addr(w, dict(cfg, p_group=0.0))
                if a[0] == "wild" and gen.ncw_bits(a[2]) > 6:
                    a = ("any",)
                return dict(op=kind, i=i, j=j, side=s.choice(["src", "dst"]),
                            line=gen.render_addr(a, m.platform))
            flags = s.choice([[], [], ["ack"], ["syn", "ack"], ["established"], ["fin", "rst"]])
            logs = s.choice([[], [], ["log"], ["log-input"] if m.platform == "ios" else ["log"]])
            return dict(op=kind, i=i, j=j, flags=flags, logs=logs)
        if kind == "scribble_ipnets":
            def ncw(a):
                cubes = a.members if a.group else (a.cube,)
                return any(((~c.care & 0xFFFFFFFF) & ((~c.care & 0xFFFFFFFF) + 1)) != 0
                           for c in (cubes or ()))
            cands = [(i, j, side) for i, b in enumerate(m.blocks) for j, r in enumerate(b.rules)
                     if r.kind == "ace" for side, a in (("src", r.src), ("dst", r.dst))]
            hot = [(i, j, side) for i, j, side in cands
                   if ncw(getattr(m.blocks[i].rules[j], side))]
            i, j, side = s.choice(hot or cands) if cands else (0, 0, "src")
            return dict(op=kind, i=i, j=j, side=side)
        if kind == "set_note":
            return dict(op=kind, i=s.randint(0, 50), j=s.randint(0, 50),
                        note=s.choice(["n1", "keep me", ["a", 1], {"k": "v"}, ""]))
        if kind == "set_remark_text":
            cands = [(i, j) for i, b in enumerate(m.blocks) for j, r in enumerate(b.rules)
                     if r.kind == "remark"]
            i, j = s.choice(cands) if cands else (0, 0)
            return dict(op=kind, i=i, j=j, s=s.choice([f"{gen.HEAD}H{s.randint(1, 3)}", "plain",
                                                        f"{gen.HEAD}Z"]))
        if kind == "set_members":
            names = sorted({a.group for r in m.flat() if r.kind == "ace"
                            for a in (r.src, r.dst) if a.group}) or ["G1"]
            sets = gen.gen_member_sets(w, m.platform)
            name = s.choice(names)
            lines = sets[name] if name in sets and s.random() < 0.7 else \
                gen.gen_members(w, m.platform, s.randint(0, 4))
            return dict(op=kind, name=name, lines=lines)
        if kind == "ace_ungroup_ports":
            c2 = dict(cfg, p_multi=0.9, p_multi_neq=cfg.get("p_multi_neq", 0.0))
            spec = gen.gen_ace(w, c2, "ios")
            if spec["proto"] not in (6, 17):
                spec["proto"] = 6
                spec["dport"] = gen.gen_port(w, c2, "ios")
                spec["sport"] = gen.gen_port(w, c2, "ios")
                spec["flags"] = ()
            return dict(op=kind, line=gen.render_ace(spec, "ios", "0", s.choice([0, 10]),
                                                     cfg["names"]))
        if kind == "conv_obj":
            cls = s.choice(["Ace", "Address", "AddressAg", "AddrGroup"] +
                           (["Ace", "Ace"] if cfg["aborts"] else []))
            plat = s.choice(["ios", "nxos"])
            ncw = False
            if cls == "Ace":
                acfg = cfg
                if plat == "ios" and cfg["aborts"] and s.random() < 0.8:
                    acfg = dict(cfg, p_multi=0.95)  # refused on its own, converted after an edit
                spec = gen.gen_ace(w, acfg, plat)
                for _ in range(8):
                    if acfg is cfg or any(p_ and p_[0] == "eq" and len(p_[1]) > 1
                                          for p_ in (spec.get("sport"), spec.get("dport"))):
                        break
                    spec = gen.gen_ace(w, acfg, plat)
                line = gen.render_ace(spec, plat, "0", s.choice([0, 10]), cfg["names"])
            elif cls == "Address":
                line = gen.render_addr(gen.gen_addr(w, cfg), plat)
            else:
                mem = self._ag_member_lines(w, plat, 1 if cls == "AddressAg" else s.randint(1, 4),
                                            allow_ncw=cfg["aborts"])
                if cfg["aborts"] and cls == "AddrGroup" and plat == "nxos" and s.random() < 0.6 \
                        and not any(x[1] for x in mem):
                    # one member that cannot become an IOS subnet: refused, removed, converted again
                    mask = s.choice([0x00000503, 0x00010100, 0x000000F5])
                    mem.insert(s.randint(0, len(mem)),
                               (f"{gen.ip(gen._base(w) & ~mask & 0xFFFFFFFF)} {gen.ip(mask)}", True))
                ncw = any(x[1] for x in mem)
                if cls == "AddressAg":
                    line = mem[0][0]
                else:
                    head = "object-group ip address G" if plat == "nxos" else \
                        "object-group network G"
                    line = "\n".join([head] + ["  " + x[0] for x in mem])
            op_ = dict(op=kind, cls=cls, platform=plat, line=line, ncw=ncw)
            if s.random() < 0.2:
                op_["spell"] = "cisco_ios" if plat == "nxos" else s.choice(["cisco_nxos", "cnx"])
            return op_
        if kind == "nested_resequence":
            plat = s.choice(["ios", "nxos"])
            pre = s.choice(["none", "all", "some"])
            cnt = [0]

            def line():
                cnt[0] += 1
                if w.random() < 0.3:
                    body = f"remark {w.choice(gen.REMARK_WORDS)}"
                else:
                    body = gen.render_ace(gen.gen_ace(w, dict(cfg, p_group=0.0, p_ncw=0.0), plat),
                                          plat, "0", 0, cfg["names"])
                if pre == "all" or pre == "some" and w.random() < 0.5:
                    return f"{w.randint(1, 5000)} {body}"
                return body
            maxd = [0]

            def tree(depth):
                out = [line()]
                for _ in range(s.randint(0, 2)):
                    if depth < 3 and s.random() < 0.45:
                        maxd[0] = max(maxd[0], depth + 1)
                        out.append(tree(depth + 1))
                    else:
                        out.append(line())
                return out
            top = []
            for _ in range(s.randint(1, 3)):
                if s.random() < 0.6:
                    maxd[0] = max(maxd[0], 1)
                    top.append(tree(1))
                else:
                    top.append(line())
            nl_ = cnt[0]
            step = s.choice([1, 1, 10, 10, 2 ** 31])
            span = max(nl_ - 1, 0) * step
            start = s.choice([0, 1, 10, 100, SEQ_MAX - span, SEQ_MAX - span - 1])
            if cfg["aborts"]:
                step = s.choice([step, step, 0, -5])
                start = s.choice([start, start, SEQ_MAX - span + 1, SEQ_MAX, SEQ_MAX + 1, -1])
            else:
                start = max(0, min(start, SEQ_MAX - span))
            return dict(op=kind, platform=plat, root=s.choice(["Acl", "Acl", "AceGroup"]),
                        tree=top, start=start, step=step, depth=maxd[0])
        if kind == "ag_resequence":
            plat = s.choice(["ios", "nxos"])
            mem = self._ag_member_lines(w, plat, s.randint(1, 6), allow_ncw=False)
            nmem = len(mem) + 1
            step = s.choice([1, 10, 10, 2 ** 31])
            span = (nmem - 1) * step
            start = s.choice([0, 1, 10, SEQ_MAX - span, SEQ_MAX - span - 1])
            if cfg["aborts"]:
                step = s.choice([step, step, 0, -5])
                start = s.choice([start, start, SEQ_MAX - span + 1, SEQ_MAX + 1, -1])
            else:
                start = max(0, min(start, SEQ_MAX - span))
            lines = [x[0] for x in mem]
            if s.random() < 0.25:
                lines.append(s.choice(lines))  # the same member once more (legal text)
            nested = []
            if plat == "ios" and s.random() < 0.35:
                lines.insert(s.randint(0, len(lines)), f"group-object NG{s.randint(1, 3)}")
                nested = [x[0] for x in self._ag_member_lines(w, plat, s.randint(1, 3), False)]
            return dict(op=kind, platform=plat, lines=lines, nested=nested, start=start,
                        step=step)
        return dict(op=kind)

    @staticmethod
    def _ag_member_lines(w, plat, n, allow_ncw):
        """Address-group member lines -> [(line, is_non_contiguous)]."""
        out = []
        for _ in range(n):
            r = w.random()
            base = gen._base(w)
            if r < 0.3:
                out.append((f"host {gen.ip(base)}", False))
                continue
            k = w.choice([1, 2, 4, 8, 16])
            mask = (1 << k) - 1
            b = base & ~mask & 0xFFFFFFFF
            if plat == "ios":
                out.append((f"{gen.ip(b)} {gen.ip(~mask & 0xFFFFFFFF)}", False))
            elif allow_ncw and r > 0.9:
                mask = 0x00000503
                out.append((f"{gen.ip(base & ~mask & 0xFFFFFFFF)} {gen.ip(mask)}", True))
            elif r < 0.7:
                out.append((f"{gen.ip(b)}/{32 - k}", False))
            else:
                out.append((f"{gen.ip(b)} {gen.ip(mask)}", False))
        return out
