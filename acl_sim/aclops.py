"""Execution of one literal op against a real Acl (used identically for the aged object and its twin)."""

from __future__ import annotations

from cisco_acl import Ace, AceGroup, Acl, Remark

from .aclobs import leaves


def member_objs(acl: Acl, lines):
    """Member addresses built like the config-level functions do: with the ACL's version."""
    from cisco_acl import Address
    return [Address(ln, platform=acl.platform, version=str(acl.version), max_ncwb=acl.max_ncwb)
            for ln in lines]


def group_members(acl: Acl, name: str):
    """Member lines of address group `name` as attached to the ACL's entries (one definition per
    group name, as in a device configuration)."""
    for leaf in leaves(acl):
        if isinstance(leaf, Ace):
            for addr in (leaf.srcaddr, leaf.dstaddr):
                if addr.type == "addrgroup" and addr.addrgroup == name and addr.items:
                    return [i.line for i in addr.items]
    return []


def new_item(acl: Acl, line: str):
    """Build an item the way a caller would, on the ACL's platform and switches; an entry that
    references an address group gets the members that group has elsewhere in the ACL."""
    toks = line.split()
    if "remark" in toks[:2]:
        return Remark(line, platform=acl.platform, version=str(acl.version), type=acl.type)
    ace = Ace(line, platform=acl.platform, version=str(acl.version), type=acl.type,
              protocol_nr=acl.protocol_nr, port_nr=acl.port_nr, max_ncwb=acl.max_ncwb)
    for addr in (ace.srcaddr, ace.dstaddr):
        if addr.type == "addrgroup":
            lines = group_members(acl, addr.addrgroup)
            if lines:
                addr.items = member_objs(acl, lines)
    return ace


def leaf_at(acl: Acl, i: int, j: int):
    if not acl.items:
        return None
    item = acl.items[i % len(acl.items)]
    if isinstance(item, AceGroup):
        if not item.items:
            return None
        return item.items[j % len(item.items)]
    return item


def perm_of(n: int, keys):
    if not keys:
        return list(range(n))
    return sorted(range(n), key=lambda i: (keys[i % len(keys)], i))


def _as(form, items):
    """The documented input forms of Acl.items: list, tuple, generator."""
    if form == "tuple":
        return tuple(items)
    if form == "gen":
        return (x for x in items)
    return items


def perform(acl: Acl, op: dict):
    """Apply op; returns a JSON-able result.  Library exceptions propagate."""
    k = op["op"]
    n = len(acl.items)
    if k == "set_platform":
        acl.platform = op.get("spell") or op["p"]  # "spell": an accepted long platform name
        return None
    if k == "flip3":
        a = acl.platform
        b = op.get("spell") or op["p"]
        from .aclobs import norm
        acl.platform = b
        t1 = acl.line
        d1 = norm(acl.data())
        acl.platform = a
        acl.platform = b
        return [t1, acl.line, d1 == norm(acl.data())]
    if k == "set_port_nr":
        acl.port_nr = op["b"]
        return None
    if k == "set_protocol_nr":
        acl.protocol_nr = op["b"]
        return None
    if k == "set_type":
        acl.type = op["ty"]
        return None
    if k == "set_indent":
        acl.indent = op["s"]
        return None
    if k == "set_name":
        acl.name = op["s"]
        return None
    if k == "set_io":
        if op["dir"] == "in":
            acl.input = list(op["vals"])
        else:
            acl.output = list(op["vals"])
        return None
    if k == "resequence":
        if op.get("default"):
            return acl.resequence()
        return acl.resequence(op["start"], op["step"])
    if k == "resequence_group":
        if not n:
            return None
        item = acl.items[op["i"] % n]
        if isinstance(item, AceGroup) and item.items:
            return item.resequence(op["start"], op["step"])
        return None
    if k == "group":
        acl.group(op["prefix"])
        return None
    if k == "ungroup":
        acl.ungroup()
        return None
    if k == "sort":
        kw = {}
        if op.get("reverse"):
            kw["reverse"] = True
        if op.get("key") == "line":
            kw["key"] = lambda o: o.line
        elif op.get("key") == "seq":
            kw["key"] = lambda o: o.sequence
        acl.sort(**kw)
        return None
    if k == "reverse":
        acl.reverse()
        return None
    if k == "permute_setter":
        perm = perm_of(n, op["keys"])
        acl.items = _as(op.get("as_"), [acl.items[p] for p in perm])
        return None
    if k == "permute_popins":
        if not n:
            return None
        x = acl.pop(op["i"] % n)
        acl.insert(op["j"] % n, x)
        return None
    if k == "pop":
        if not n:
            return None
        acl.pop(op["i"] % n)
        return None
    if k == "delitem":
        if not n:
            return None
        del acl[op["i"] % n]
        return None
    if k == "remove":
        if not n:
            return None
        acl.remove(acl.items[op["i"] % n])
        return None
    if k == "delete":
        if not n:
            return None
        acl.delete(acl.items[op["i"] % n])
        return None
    if k == "insert":
        acl.insert(op["i"] % (n + 1), new_item(acl, op["line"]))
        return None
    if k == "append":
        acl.append(new_item(acl, op["line"]))
        return None
    if k == "extend":
        acl.extend([new_item(acl, ln) for ln in op["lines"]])
        return None
    if k == "items_self":
        acl.items = _as(op.get("as_"), list(acl.items))
        return None
    if k == "items_lines":
        # the setter path with plain strings (documented input type)
        acl.items = [o.line for o in leaves(acl)]
        return None
    if k == "reparse":
        acl.line = acl.line
        return None
    if k == "shading":
        return acl.shading(op["skip"] or None)
    if k == "shadow_of":
        return acl.shadow_of(op["skip"] or None)
    if k == "delete_shadow":
        return acl.delete_shadow(op["skip"] or None)
    if k == "shadow_triple":
        skip = op["skip"] or None
        r0 = acl.shading(skip)
        r1 = acl.delete_shadow(skip)
        mid = acl.line
        r2 = acl.delete_shadow(skip)
        return [r0, r1, r2, mid == acl.line]
    if k == "ungroup_ports":
        acl.ungroup_ports()
        return None
    if k == "ungroup_ports_group":
        if not n:
            return None
        item = acl.items[op["i"] % n]
        if isinstance(item, AceGroup):
            item.ungroup_ports()
        return None
    if k == "tcam":
        return acl.tcam_count()
    if k == "set_item_seq":
        leaf = leaf_at(acl, op["i"], op["j"])
        if leaf is not None:
            leaf.sequence = op["n"]
        return None
    if k == "scribble_ipnets":
        # a caller grows the list it got from ipnets(): the list is the caller's
        from ipaddress import IPv4Network
        leaf = leaf_at(acl, op["i"], op["j"])
        if isinstance(leaf, Ace):
            addr = leaf.srcaddr if op["side"] == "src" else leaf.dstaddr
            nets = addr.ipnets()
            nets.append(IPv4Network("0.0.0.0/0"))
            for it in addr.items:
                got = it.ipnets()
                got.append(IPv4Network("0.0.0.0/0"))
        return None
    if k == "scribble_names":
        # a caller merges both platforms' port names in the dict PortName.names() returned
        from cisco_acl import PortName
        for proto in ("tcp", "udp"):
            ios = PortName(protocol=proto, platform="ios").names()
            nxos = PortName(protocol=proto, platform="nxos").names()
            both = dict(ios, **nxos)
            ios.update(both)
            nxos.update(both)
            PortName(protocol=proto, platform=acl.platform).ports().clear()
        return None
    if k == "foreign_parse":
        # the ACL's body text offered to a group of the other platform (lines valid here may be
        # rejected and logged there); the throw-away object is dropped at once
        other = "nxos" if acl.platform == "ios" else "ios"
        body = "\n".join(o.line for o in leaves(acl))
        try:
            AceGroup(body, platform=other)
        except (ValueError, TypeError):
            pass
        return None
    if k == "set_ports":
        leaf = leaf_at(acl, op["i"], op["j"])
        if isinstance(leaf, Ace):
            port = leaf.srcport if op["side"] == "src" else leaf.dstport
            if port.operator == op["operator"]:
                if op["via"] == "items":
                    port.items = list(op["items"])
                else:
                    port.line = " ".join([op["operator"], *map(str, op["items"])])
        return None
    if k == "set_addr":
        leaf = leaf_at(acl, op["i"], op["j"])
        if isinstance(leaf, Ace) and acl.type == "extended":
            addr = leaf.srcaddr if op["side"] == "src" else leaf.dstaddr
            if addr.type != "addrgroup":
                addr.line = op["line"]
        return None
    if k == "set_option":
        leaf = leaf_at(acl, op["i"], op["j"])
        if isinstance(leaf, Ace) and acl.type == "extended" and \
                (not op["flags"] or leaf.protocol.number == 6):
            leaf.option.line = " ".join([*op["flags"], *op["logs"]])
        return None
    if k == "set_note":
        leaf = leaf_at(acl, op["i"], op["j"])
        if leaf is not None:
            leaf.note = op["note"]
        return None
    if k == "set_remark_text":
        leaf = leaf_at(acl, op["i"], op["j"])
        if isinstance(leaf, Remark):
            leaf.text = op["s"]
        return None
    if k == "set_members":
        # one definition per group name: every reference gets the new member list
        for leaf in leaves(acl):
            if isinstance(leaf, Ace):
                for addr in (leaf.srcaddr, leaf.dstaddr):
                    if addr.type == "addrgroup" and addr.addrgroup == op["name"]:
                        addr.items = member_objs(acl, op["lines"])
        return None
    raise KeyError(k)


STATE_FREE = {"shading", "shadow_of", "tcam"}
