"""Check driver: corpus replay, seeded batches, triage of failures, determinism spot check, evidence."""

from __future__ import annotations

import glob
import json
import os
import subprocess
import sys
import time
from collections import Counter

from . import core
from .core import VERIF_DIR


_REG = {
    "C05": ("m_wc", "WcMachine"),
    "C08": ("m_port", "PortMachine"),
    "C12": ("m_build", "BuildMachine"),
    "C16": ("m_obj", "ObjMachine"),
    "C02": ("m_acl", "AclMachine"),
    "C04": ("m_acl", "AclMachine"),
    "C10": ("m_acl", "AclMachine"),
    "C15": ("m_acl", "AclMachine"),
    "C17": ("m_acl", "AclMachine"),
    "C19": ("m_acl", "AclMachine"),
}


class _Registry:
    def __getitem__(self, prop):
        import importlib

        mod, name = _REG[prop]
        return getattr(importlib.import_module(f"acl_sim.{mod}"), name)


def registry():
    return _Registry()


def _env_int(name, default):
    try:
        return int(os.environ.get(name, "") or default)
    except ValueError:
        return default


def digests_cmd(prop, tier, verif_seed, idxs):
    """Print 'idx digest' lines (used by the fresh-interpreter determinism check)."""
    cls = registry()[prop]
    for idx in idxs:
        r = core.generate_run(cls, prop, tier, verif_seed, idx)
        print(idx, r["digest"])


def replay_cmd(path):
    with open(path) as fh:
        doc = json.load(fh)
    prop = doc["property"]
    cls = registry()[prop]
    r = core.replay_ops(cls, prop, doc.get("tier", "quick"), doc["config"], doc["ops"])
    if r.get("harness"):
        print("HARNESS-ERROR:", r["harness"])
        return 2
    f = r["failure"]
    if f and cls(prop).owns(f["prop"]):
        print(f"replayed: step={f['step']} oracle={f['oracle']} op={f['op']} digest={r['digest']}")
        print(f"  {f['msg']}")
        known = core.match_known(f, core.load_known())
        if known:
            print(f"KNOWN-FINDING: property={prop} {known['what']}")
            return 0
        print(f"VIOLATION property={prop} replay={path}")
        return 1
    print(f"replay passed: no violation (digest={r['digest']})")
    return 0


def run_check(prop: str, tier: str) -> int:
    t0 = time.time()
    cls = registry()[prop]
    verif_seed = _env_int("VERIF_SEED", 0)
    workers = _env_int("VERIF_WORKERS", min(16, os.cpu_count() or 1))
    budget = _env_int("VERIF_BUDGET_S", cls.THOROUGH_BUDGET_S if tier == "thorough" else 0)
    n_quick = _env_int("VERIF_RUNS", cls.QUICK_RUNS.get(prop, 200))
    known = core.load_known()
    probe_machine = cls(prop, tier)

    print(f"check {prop} tier={tier} VERIF_SEED={verif_seed} workers={workers} machine={cls.name}")
    sys.stdout.flush()

    results = []
    harness_errors = []
    # ---- 1. corpus
    corpus_files = sorted(glob.glob(os.path.join(VERIF_DIR, "corpus", prop, "*.json")))
    corpus_results = []
    for path in corpus_files:
        with open(path) as fh:
            doc = json.load(fh)
        try:
            r = core.replay_ops(cls, prop, tier, doc["config"], doc["ops"])
        except Exception as ex:  # noqa
            harness_errors.append(f"corpus {path}: {type(ex).__name__}: {ex}")
            continue
        r["idx"] = "corpus:" + os.path.basename(path)
        r["seed"] = doc.get("seed")
        corpus_results.append(r)

    # ---- 2. seeded runs
    done = 0
    batch = n_quick
    while True:
        part = core.run_batch(cls, prop, tier, verif_seed, range(done, done + batch), workers)
        results.extend(part)
        done += batch
        if tier != "thorough" or time.time() - t0 > budget:
            break
        # stop early when an unknown violation is already in hand
        if any(
            (not r.get("ok")) and r.get("failure") and not core.match_known(r["failure"], known)
            and probe_machine.owns(r["failure"]["prop"])
            for r in part
        ):
            break
        batch = max(workers * 8, n_quick // 2)

    # ---- 3. triage
    violations = []
    known_hit: Counter = Counter()
    cut_short: Counter = Counter()
    knob_only = 0
    seen_classes = set()
    for r in corpus_results + results:
        if r.get("harness"):
            harness_errors.append(f"run {r['idx']}: {r['harness']}")
            continue
        f = r.get("failure")
        if not f:
            continue
        if not probe_machine.owns(f["prop"]):
            cut_short[f["prop"]] += 1
            continue
        ent = core.match_known(f, known)
        if ent:
            known_hit[ent["id"]] += 1
            continue
        key = (f["prop"], f["oracle"], f["op"], core.canon(f.get("disc")))
        if key in seen_classes:
            violations.append((r, None))
            continue
        seen_classes.add(key)
        violations.append((r, key))

    for r in corpus_results + results:
        for k, v in (r.get("probes") or {}).items():
            if k.startswith("known:") and v:
                known_hit[k[6:]] += 1
    printed = []
    reported = 0
    n_viol = 0
    for r, key in violations:
        n_viol += 1
        if key is None or reported >= 3:
            continue
        f = r["failure"]
        ops = r.get("ops") or []
        cfg = r["cfg"]
        # knob rule: a failure under a non-shipped memo size must reproduce under the shipped one
        if cfg.get("memo_size", "shipped") != "shipped":
            cfg2 = dict(cfg, memo_size="shipped")
            ops2 = [o for o in ops if o["op"] != "memo_resize"]
            r2 = core.replay_ops(cls, prop, tier, cfg2, ops2)
            if core.same_class(r2.get("failure"), f):
                cfg, ops = cfg2, ops2
                r = dict(r, cfg=cfg2, ops=ops2, failure=r2.get("failure"))
                f = r["failure"]
            else:
                knob_only += 1
                n_viol -= 1
                continue
        ops_min = core.shrink(cls, prop, tier, cfg, ops, f)
        rmin = core.replay_ops(cls, prop, tier, cfg, ops_min)
        if not core.same_class(rmin.get("failure"), f):
            ops_min = ops[: f["step"] + 1]
            rmin = core.replay_ops(cls, prop, tier, cfg, ops_min)
        rr = dict(r)
        rr["failure"] = rmin.get("failure") or f
        path = core.write_replay(prop, cls, tier, rr, ops_min, verif_seed, reported)
        code, out = core.replay_file_fresh(path)
        if code != 1 or f"VIOLATION property={prop}" not in out:
            harness_errors.append(
                f"violation at run {r.get('idx')} ({f['oracle']}) did not replay in a fresh "
                f"interpreter (exit {code}): {out[-400:]}"
            )
            continue
        reported += 1
        printed.append(path)
        print(f"  oracle={f['oracle']} step={rr['failure']['step']} op={rr['failure']['op']} "
              f"ops={len(ops_min)} (from {len(ops)}) seed={r.get('seed')} idx={r.get('idx')}")
        print(f"  {rr['failure']['msg'][:600]}")
        print(f"VIOLATION property={prop} replay={path}")

    for ent in known:
        if ent.get("status") == "open" and known_hit.get(ent["id"]):
            via = "" if ent["property"] == prop else f"[owned by {ent['property']}] "
            print(f"KNOWN-FINDING: property={prop} {via}{ent['what']} "
                  f"(hit in {known_hit[ent['id']]} runs)")

    # ---- 4. determinism spot check
    det = {"in_process": 0, "fresh_interpreter": 0, "mismatch": 0}
    ok_runs = [r for r in results if r.get("ok")]
    spot = [r for r in ok_runs if isinstance(r["idx"], int)][:: max(1, len(ok_runs) // 6)][:6]
    for r in spot[:3]:
        r2 = core.generate_run(cls, prop, tier, verif_seed, r["idx"])
        det["in_process"] += 1
        if r2["digest"] != r["digest"]:
            det["mismatch"] += 1
            harness_errors.append(f"determinism: run {r['idx']} digest differs in-process")
    if spot:
        env = dict(os.environ)
        env["PYTHONHASHSEED"] = "1"
        idxs = [str(r["idx"]) for r in spot]
        p = subprocess.run(
            [sys.executable, os.path.join(VERIF_DIR, "check.py"), "digests", prop, tier,
             str(verif_seed), *idxs],
            capture_output=True, text=True, env=env, timeout=900,
        )
        got = dict(line.split() for line in p.stdout.splitlines() if len(line.split()) == 2)
        for r in spot:
            det["fresh_interpreter"] += 1
            if got.get(str(r["idx"])) != r["digest"]:
                det["mismatch"] += 1
                harness_errors.append(
                    f"determinism: run {r['idx']} digest differs under PYTHONHASHSEED=1 "
                    f"({got.get(str(r['idx']))} vs {r['digest']}) {p.stderr[-300:]}"
                )

    # ---- 4b. fault F5: the same check in processes started under other str-hash seeds
    sweep = None
    if not os.environ.get("VERIF_SUBCHECK"):
        sweep = hashseed_sweep(prop, tier, verif_seed, workers, len(results))
        for ln in sweep.pop("lines"):
            print(ln)
        if sweep["exit"] == 1:
            printed.extend(sweep["violations"])
        elif sweep["exit"] != 0:
            harness_errors.append(f"hash-seed sweep exited {sweep['exit']}: {sweep['tail']}")
        sweep.pop("tail", None)

    # ---- 5. evidence
    wall = time.time() - t0
    if os.environ.get("VERIF_SUBCHECK"):
        # part of another check's hash-seed sweep: no evidence of its own
        print(f"SUBCHECK-SUMMARY runs={len(results)} steps="
              f"{sum(r.get('steps', 0) for r in results)} violations={n_viol}")
    else:
        write_evidence(
            prop, tier, cls, verif_seed, results, corpus_results, wall, n_viol, known_hit,
            cut_short, knob_only, det, harness_errors, workers, sweep,
        )

    for msg in harness_errors[:10]:
        print("HARNESS-ERROR:", msg[:1500])
    if printed:
        return 1
    if harness_errors:
        return 2
    print(f"ok: {prop} held on {len(results)} runs / {sum(r.get('steps', 0) for r in results)} steps"
          f" in {wall:.1f}s")
    return 0


def hashseed_sweep(prop, tier, verif_seed, workers, n_main):
    """Fault F5 (process start under another PYTHONHASHSEED): the corpus and a slice of the same
    run seeds are executed again by complete sub-checks in interpreters started under other
    str-hash seeds.  A violation found there is minimised and replayed under that hash seed; its
    replay file names it."""
    seeds = [1 + verif_seed % 5] if tier != "thorough" else [1 + verif_seed % 5, 7, 11]
    n = max(40, n_main // (5 if tier != "thorough" else 8))
    out = dict(hashseeds=seeds, runs=0, steps=0, violations=[], exit=0, lines=[], tail="")
    for hs in seeds:
        env = dict(os.environ, PYTHONHASHSEED=str(hs), VERIF_SUBCHECK="1", VERIF_RUNS=str(n),
                   VERIF_BUDGET_S="0", VERIF_WORKERS=str(workers))
        try:
            p = subprocess.run([sys.executable, os.path.join(VERIF_DIR, "check.py"), prop, "quick"],
                               capture_output=True, text=True, env=env, timeout=3600)
            code, text = p.returncode, p.stdout + p.stderr
        except subprocess.TimeoutExpired:
            code, text = 2, "timeout"
        for ln in text.splitlines():
            if ln.startswith("SUBCHECK-SUMMARY"):
                kv = dict(x.split("=") for x in ln.split()[1:])
                out["runs"] += int(kv["runs"])
                out["steps"] += int(kv["steps"])
            elif ln.startswith("VIOLATION "):
                out["violations"].append(ln.split("replay=")[1])
                out["lines"].append(ln)
            elif ln.startswith("  oracle=") or ln.startswith("HARNESS-ERROR"):
                out["lines"].append(f"{ln}  [PYTHONHASHSEED={hs}]")
        if code == 1:
            out["exit"] = 1
        elif code != 0 and out["exit"] == 0:
            out["exit"] = code
            out["tail"] = text[-400:]
    return out


def write_evidence(prop, tier, cls, verif_seed, results, corpus_results, wall, n_viol, known_hit,
                   cut_short, knob_only, det, harness_errors, workers, sweep=None):
    good = [r for r in results if "digest" in r]
    steps = sum(r.get("steps", 0) for r in good)
    end_states = {r["end_state"] for r in good if r.get("nontrivial") and r.get("end_state")}
    all_states = set()
    for r in good:
        all_states.update(r.get("states") or [])
    samples = []
    with_ops = [r for r in good if r.get("ops")]
    picks = [with_ops[0], with_ops[len(with_ops) // 2], with_ops[-1]] if len(with_ops) >= 3 \
        else with_ops
    for r in picks:
        samples.append({"run_index": r["idx"], "seed": r["seed"], "config": r["cfg"],
                        "ops": r["ops"][:14]})
    if not samples and good:
        samples.append({"run_index": good[0]["idx"], "seed": good[0].get("seed"),
                        "config": good[0]["cfg"]})
    probes = core.merge_counts(good, "probes")
    faults = core.merge_counts(good, "faults")
    ophist = core.merge_counts(good, "ophist")
    m = cls(prop, tier)
    doc = dict(
        property_id=prop,
        tier=tier,
        seed=verif_seed,
        level="exploration",
        wall_s=round(wall, 2),
        violations=n_viol,
        coverage=dict(
            evaluations=len(good),
            distinct_nontrivial=len(end_states),
            rule=m.RULE,
            samples=samples,
            runs=len(good),
            steps=steps,
            runs_per_hour=int(len(good) / wall * 3600) if wall > 0 else 0,
            steps_per_hour=int(steps / wall * 3600) if wall > 0 else 0,
            workers=workers,
            seeds=dict(verif_seed=verif_seed,
                       first_run_seed=good[0].get("seed") if good else None,
                       last_run_seed=good[-1].get("seed") if good else None,
                       run_indices=[0, len(results) - 1]),
            simulated_time="not applicable: the SUT reads no clock; logical steps are reported",
            ops_histogram=ophist,
            faults_fired=faults,
            probes=probes,
            distinct_states=len(all_states),
            distinct_end_states=len(end_states),
            components=m.COMPONENTS,
            determinism_spot_check=det,
            corpus_replayed=len(corpus_results),
            known_findings_hit=dict(known_hit),
            cut_short_by=dict(cut_short),
            knob_only_anomalies=knob_only,
            harness_errors=len(harness_errors),
            hashseed_sweep=sweep or {},
            exhaustive=False,
        ),
        assumptions=m.ASSUMPTIONS,
    )
    evdir = os.path.join(VERIF_DIR, "evidence")
    if os.path.abspath(os.environ.get("VERIF_REPO", "/repo")) != "/repo":
        # runs against a scratch copy (seeded changes) are not evidence about /repo
        evdir = os.path.join(VERIF_DIR, "out", "evidence-scratch")
    os.makedirs(evdir, exist_ok=True)
    with open(os.path.join(evdir, f"{prop}.json"), "w") as fh:
        json.dump(doc, fh, indent=1, sort_keys=True, default=str)
