"""The three process-global seams of cisco_acl, owned by the simulator from outside.

S1 id source   cisco_acl.base.uuid1            -> SimIds (logical counter)
S2 memo        functools.lru_cache reachable from cisco_acl.wildcard (method or module function)
               -> SimMemo (clear / bypass / resize / pressure, decided by a literal schedule)
S3 log sink    handlers of the root logger     -> SimLog (capture first, optional faulty sink after)
"""

from __future__ import annotations

import functools
import logging
import uuid as uuid_mod

import cisco_acl.base as base_mod
import cisco_acl.wildcard as wc_mod
from cisco_acl.wildcard import Wildcard

_LRU_TYPE = type(functools.lru_cache(maxsize=1)(lambda: None))


# ------------------------------------------------------------------ S1


class SimIds:
    """Deterministic replacement of uuid1(): logical counter -> uuid.UUID."""

    def __init__(self):
        self.n = 0
        self._orig = None

    def __call__(self):
        self.n += 1
        return uuid_mod.UUID(int=(0x51D0000000000000 << 64) | self.n)

    def install(self):
        self._orig = base_mod.uuid1
        base_mod.uuid1 = self
        self.n = 0

    def uninstall(self):
        if self._orig is not None:
            base_mod.uuid1 = self._orig
            self._orig = None


# ------------------------------------------------------------------ S2


class _MemoSite:
    """One lru_cache found in cisco_acl.wildcard (either on the class or in the module)."""

    def __init__(self, owner, attr, wrapper):
        self.owner = owner
        self.attr = attr
        self.orig = wrapper  # the shipped lru wrapper
        self.raw = wrapper.__wrapped__
        self.cur = wrapper  # possibly re-wrapped with another maxsize


class SimMemo:
    """Wraps every lru_cache of cisco_acl.wildcard.

    ``schedule`` maps the 0-based index of a memoised call *within the current op* to an action
    ("clear" | "bypass").  The schedule is a literal part of the op, so replay needs no PRNG.
    """

    def __init__(self):
        self.sites: list[_MemoSite] = []
        self.schedule: dict[int, str] = {}
        self.calls_in_op = 0
        self.calls = 0
        self.fired = {"clear": 0, "bypass": 0, "resize": 0, "pressure": 0}
        self.active = True
        self.installed = False

    # discovery
    def _discover(self):
        sites = []
        for attr, val in list(vars(Wildcard).items()):
            if isinstance(val, _LRU_TYPE):
                sites.append(_MemoSite(Wildcard, attr, val))
        for attr, val in list(vars(wc_mod).items()):
            if isinstance(val, _LRU_TYPE):
                sites.append(_MemoSite(wc_mod, attr, val))
        return sites

    @property
    def present(self) -> bool:
        return bool(self.sites)

    def install(self):
        self.sites = self._discover()
        for site in self.sites:
            site.orig.cache_clear()
            setattr(site.owner, site.attr, self._make(site))
        self.installed = True
        self.calls = 0
        self.begin_op({})

    def _make(self, site: _MemoSite):
        memo = self

        @functools.wraps(site.raw)
        def sim(*args, **kwargs):
            idx = memo.calls_in_op
            memo.calls_in_op += 1
            memo.calls += 1
            act = memo.schedule.get(idx) if memo.active else None
            if act == "clear":
                memo.fired["clear"] += 1
                for s in memo.sites:
                    s.cur.cache_clear()
            elif act == "bypass":
                memo.fired["bypass"] += 1
                return site.raw(*args, **kwargs)
            return site.cur(*args, **kwargs)

        sim.__sim_site__ = site
        return sim

    def uninstall(self):
        if not self.installed:
            return
        for site in self.sites:
            site.orig.cache_clear()
            if site.cur is not site.orig:
                site.cur.cache_clear()
            setattr(site.owner, site.attr, site.orig)
        self.sites = []
        self.installed = False

    # control
    def begin_op(self, schedule):
        """schedule: list of [call_index, action]."""
        self.calls_in_op = 0
        self.schedule = {int(i): a for i, a in (schedule or [])}

    def clear(self):
        for s in self.sites:
            s.cur.cache_clear()
        if self.sites:
            self.fired["clear"] += 1

    def resize(self, maxsize):
        """maxsize: int, None (unbounded) or "shipped"."""
        for s in self.sites:
            s.cur.cache_clear()
            if maxsize == "shipped":
                s.cur = s.orig
            else:
                s.cur = functools.lru_cache(maxsize=maxsize)(s.raw)
        if self.sites:
            self.fired["resize"] += 1

    def holds_entries(self) -> int:
        return sum(s.cur.cache_info().currsize for s in self.sites)

    def pressure(self, n, base=0):
        """Foreign traffic: n other non-contiguous wildcards queried through the same memo."""
        was = self.active
        self.active = False
        try:
            for i in range(n):
                k = base + i
                w = Wildcard(f"172.{(k >> 8) & 255}.{k & 255}.0 0.0.5.3")
                w.ipnets()
        finally:
            self.active = was
        self.fired["pressure"] += 1


# ------------------------------------------------------------------ S3


class _Capture(logging.Handler):
    def __init__(self):
        super().__init__(level=logging.DEBUG)
        self.records: list[tuple[int, str]] = []

    def emit(self, record):
        self.records.append((record.levelno, record.getMessage()))


class SinkFault(OSError):
    """Injected failure of the downstream log sink."""


class _Faulty(logging.Handler):
    def __init__(self, fail_at: int, mode: str = "raise"):
        super().__init__(level=logging.DEBUG)
        self.fail_at = fail_at
        self.mode = mode
        self.seen = 0
        self.fired = 0

    def handle(self, record):  # bypass Handler.handleError: the error must reach the caller
        self.seen += 1
        if self.seen == self.fail_at:
            self.fired += 1
            if self.mode == "detach":
                # the sink goes away in the middle of a construction (handler removed)
                root = logging.getLogger()
                if self in root.handlers:
                    root.handlers.remove(self)
                return True
            raise SinkFault(28, "simulated sink failure")
        return True

    def emit(self, record):  # pragma: no cover
        pass


class SimLog:
    """Owns the root logger's handlers for the duration of a run."""

    def __init__(self):
        self.root = logging.getLogger()
        self._saved = None
        self.capture = _Capture()
        self.faulty: _Faulty | None = None

    def install(self, level="DEBUG"):
        """`level`: the root level of this run (a knob: the application decides how verbose
        logging is; DEBUG lets the capture handler see every record, WARNING is what an
        unconfigured process runs with)."""
        self._saved = (list(self.root.handlers), self.root.level, logging.raiseExceptions)
        self.root.handlers = [self.capture]
        self.root.setLevel(getattr(logging, str(level), logging.DEBUG))
        self.capture.records = []

    def uninstall(self):
        if self._saved is not None:
            self.root.handlers, level, logging.raiseExceptions = (
                self._saved[0],
                self._saved[1],
                self._saved[2],
            )
            self.root.setLevel(level)
            self._saved = None

    def take(self):
        recs = self.capture.records
        self.capture.records = []
        return recs

    def arm(self, fail_at: int | None, mode: str = "raise"):
        """Attach (or detach, with None) the faulty sink behind the capture handler."""
        self.root.handlers = [self.capture]
        self.faulty = None
        if fail_at:
            self.faulty = _Faulty(fail_at, mode)
            self.root.handlers.append(self.faulty)
