"""Observation of real cisco_acl objects: abstraction functions alpha_attr / alpha_text, data
normalisation, twin construction."""

from __future__ import annotations

import copy
from ipaddress import IPv4Address, IPv4Network

from cisco_acl import Ace, AceGroup, Acl, Remark

from .model import ALL32, AclM, AddrM, Block, Cube, PortM, Reader, Rule


def cube_of_wild_line(line: str) -> Cube:
    a, m = line.split()
    return Cube.wild(int(IPv4Address(a)), int(IPv4Address(m)))


def addr_of(a) -> AddrM:
    if a.type == "addrgroup":
        members = []
        for it in a.items:
            wl = it.wildcard
            if not wl:
                return AddrM(group=a.addrgroup, members=None)
            members.append(cube_of_wild_line(wl))
        return AddrM(group=a.addrgroup, members=tuple(members))
    return AddrM(cube=cube_of_wild_line(a.wildcard))


def port_of(p):
    if not p.operator:
        return None
    return PortM(p.operator, tuple(p.items))


def rule_of(obj) -> Rule:
    if isinstance(obj, Remark):
        return Rule(kind="remark", seq=obj.sequence, text=obj.text, note=obj.note)
    std = obj.type == "standard"
    return Rule(
        kind="ace", seq=obj.sequence, action=obj.action, proto=obj.protocol.number,
        src=addr_of(obj.srcaddr), sport=port_of(obj.srcport), dst=addr_of(obj.dstaddr),
        dport=port_of(obj.dstport), flags=tuple(obj.option.flags), logs=tuple(obj.option.logs),
        note=obj.note, standard=std,
    )


def alpha_attr(acl: Acl) -> AclM:
    blocks = []
    for item in acl.items:
        if isinstance(item, AceGroup):
            blocks.append(Block([rule_of(x) for x in item.items], grouped=True, name=item.name,
                                seq=item.sequence))
        else:
            blocks.append(Block([rule_of(item)], grouped=False, seq=item.sequence))
    return AclM(
        name=acl.name, type=acl.type, platform=acl.platform, version=str(acl.version),
        port_nr=acl.port_nr, protocol_nr=acl.protocol_nr, indent=acl.indent,
        group_by=acl.group_by, max_ncwb=acl.max_ncwb, blocks=blocks,
    )


def leaves(acl: Acl):
    out = []
    for item in acl.items:
        if isinstance(item, AceGroup):
            out.extend(item.items)
        else:
            out.append(item)
    return out


def alpha_text(text: str, platform: str, version: str):
    """Independent reading of rendered text -> (type, name, rules)."""
    return Reader(platform, version, strict=True).acl(text)


def fastcopy(obj):
    """Deep copy of data() structures; long int lists (port lists) are sliced, not walked."""
    if isinstance(obj, dict):
        return {k: fastcopy(v) for k, v in obj.items()}
    if isinstance(obj, list):
        if obj and type(obj[0]) is int:
            return obj[:]
        return [fastcopy(v) for v in obj]
    if isinstance(obj, (str, int, bool, type(None), IPv4Network, IPv4Address, tuple, float)):
        return obj
    return copy.deepcopy(obj)


def norm(obj):
    """Normalise data() for comparison: networks -> str, tuples -> lists."""
    if isinstance(obj, dict):
        return {k: norm(v) for k, v in obj.items() if k != "uuid"}
    if isinstance(obj, (list, tuple)):
        if obj and type(obj[0]) is int:
            return list(obj)
        return [norm(v) for v in obj]
    if isinstance(obj, (IPv4Network, IPv4Address)):
        return str(obj)
    return obj


def text_projection(data: dict):
    """What of data() the rendered text carries: leaves without notes / group members, header."""
    out = []

    def leaf(d):
        d = {k: v for k, v in d.items() if k not in ("note", "uuid", "version")}
        for side in ("srcaddr", "dstaddr"):
            if isinstance(d.get(side), dict):
                d[side] = {k: v for k, v in d[side].items()
                           if k not in ("note", "items", "uuid", "version")}
        for sub in ("protocol", "srcport", "dstport", "option"):
            if isinstance(d.get(sub), dict):
                d[sub] = {k: v for k, v in d[sub].items() if k not in ("note", "uuid", "version")}
        return norm(d)

    for it in data["items"]:
        if isinstance(it.get("items"), list) and "action" not in it:
            out.extend(leaf(x) for x in it["items"])
        else:
            out.append(leaf(it))
    head = {k: norm(data[k]) for k in ("line", "platform", "version", "type", "name", "group_by",
                                       "indent", "protocol_nr", "port_nr", "max_ncwb")}
    return head, out


def make_twin(data: dict) -> Acl:
    """A fresh object built from exported state only (no history)."""
    return Acl(**fastcopy(data))


def make_twin_structured(data: dict) -> Acl:
    """A fresh object built from exported state only, block by block.

    Acl(**data) regroups loose entries under group_by, so a state in which a loose entry stands
    next to a block cannot be rebuilt that way.  Here every top-level item is rebuilt on its own
    from its exported dict and the list is filled through the public list API.
    """
    d = fastcopy(data)
    items = d.pop("items")
    d["line"] = d["line"].split("\n")[0]
    tw = Acl(**d)
    objs = []
    for it in items:
        if isinstance(it.get("items"), list) and "action" not in it:
            objs.append(AceGroup(**it))
        elif it.get("action") == "remark":
            objs.append(Remark(**it))
        else:
            objs.append(Ace(**it))
    tw.extend(objs)
    return tw
