"""Denotational reference model (cubes, port intervals, rules) and the independent reader of Cisco
ACL text.  Shares no code with cisco_acl.parsers; the only thing taken from the library are the
port/protocol *name tables* (trusted data, see DESIGN.md 4.2).
"""

from __future__ import annotations

import copy
from dataclasses import dataclass, field
from ipaddress import IPv4Address
from typing import Any, Optional

from cisco_acl import PortName
from cisco_acl import protocol as lib_protocol

ALL32 = 0xFFFFFFFF
MAXP = 65535
OPERATORS = ("eq", "neq", "lt", "gt", "range")
FLAGS = ("ack", "fin", "psh", "rst", "syn", "urg", "established")
LOGS = ("log", "log-input")
OPTION_TOKENS = set(FLAGS) | set(LOGS)


class ReadError(ValueError):
    """Text is outside the grammar of Appendix B."""


# ------------------------------------------------------------------ cubes


@dataclass(frozen=True)
class Cube:
    value: int
    care: int

    @staticmethod
    def wild(base: int, wildmask: int) -> "Cube":
        care = ~wildmask & ALL32
        return Cube(base & care, care)

    def contains_addr(self, a: int) -> bool:
        return (a & self.care) == self.value

    def subset_of(self, top: "Cube") -> bool:
        return (top.care & ~self.care) == 0 and (self.value & top.care) == top.value

    def intersects(self, other: "Cube") -> bool:
        both = self.care & other.care
        return (self.value & both) == (other.value & both)

    def wildmask(self) -> int:
        return ~self.care & ALL32

    def sample_in(self) -> int:
        return self.value

    def samples_out(self):
        """A few addresses just outside the cube (one per care bit, up to 3)."""
        out = []
        for b in range(32):
            if (self.care >> b) & 1:
                out.append(self.value ^ (1 << b))
                if len(out) >= 3:
                    break
        return out


def cube_covered(b: Cube, tops) -> bool:
    """Exact: is cube b inside the union of cubes `tops`?  Recursive splitting."""
    for t in tops:
        if b.subset_of(t):
            return True
    for t in tops:
        if not b.intersects(t):
            continue
        free = t.care & ~b.care  # bits t cares about and b does not: b straddles t there
        if not free:
            continue
        bit = free & -free
        lo = Cube(b.value, b.care | bit)
        hi = Cube(b.value | bit, b.care | bit)
        return cube_covered(lo, tops) and cube_covered(hi, tops)
    return False


def cubes_subset(bottoms, tops) -> bool:
    return all(cube_covered(b, tops) for b in bottoms)


# ------------------------------------------------------------------ ports


def port_intervals(op: str, operands) -> tuple:
    """Denotation of a port expression as disjoint sorted closed intervals within [1, 65535]."""
    if op == "eq":
        pts = sorted(set(operands))
        return _merge([(p, p) for p in pts])
    if op == "neq":
        pts = sorted(set(operands))
        out = []
        lo = 1
        for p in pts:
            if p > lo:
                out.append((lo, p - 1))
            lo = p + 1
        if lo <= MAXP:
            out.append((lo, MAXP))
        return tuple(out)
    if op == "lt":
        return ((1, operands[0] - 1),) if operands[0] > 1 else ()
    if op == "gt":
        return ((operands[0] + 1, MAXP),) if operands[0] < MAXP else ()
    if op == "range":
        return ((min(operands), max(operands)),)
    raise ValueError(op)


def _merge(iv) -> tuple:
    out = []
    for lo, hi in sorted(iv):
        if out and lo <= out[-1][1] + 1:
            out[-1] = (out[-1][0], max(out[-1][1], hi))
        else:
            out.append((lo, hi))
    return tuple(out)


def iv_union(a, b) -> tuple:
    return _merge(list(a) + list(b))


def iv_subset(bottom, top) -> bool:
    for lo, hi in bottom:
        if not any(tl <= lo and hi <= th for tl, th in top):
            return False
    return True


def iv_contains(iv, p: int) -> bool:
    return any(lo <= p <= hi for lo, hi in iv)


ALL_PORTS = ((1, MAXP),)


# ------------------------------------------------------------------ rules


@dataclass
class AddrM:
    """Address of a rule: a single cube, or a named group with (possibly unknown) members."""

    cube: Optional[Cube] = None
    group: str = ""
    members: Optional[tuple] = None  # tuple[Cube] for a group; None = unknown

    def cubes(self):
        if self.group:
            return self.members or None  # a group without members is opaque, not empty
        return (self.cube,)

    def den(self, with_members=True):
        if self.group:
            return ("g", self.group, tuple(self.members or ()) if with_members else None)
        return ("c", self.cube.value, self.cube.care)


@dataclass
class PortM:
    op: str
    operands: tuple

    def intervals(self):
        return port_intervals(self.op, self.operands)


@dataclass
class Rule:
    kind: str  # "remark" | "ace"
    seq: int = 0
    text: str = ""
    action: str = ""
    proto: int = 0
    src: Optional[AddrM] = None
    sport: Optional[PortM] = None
    dst: Optional[AddrM] = None
    dport: Optional[PortM] = None
    flags: tuple = ()
    logs: tuple = ()
    note: Any = ""
    standard: bool = False

    def den(self, with_members=True, with_seq=True):
        """Denotational signature: meaning, not spelling."""
        seq = self.seq if with_seq else 0
        if self.kind == "remark":
            return ("remark", seq, self.text)
        return (
            "ace", seq, self.action, self.proto,
            self.src.den(with_members),
            None if self.sport is None else self.sport.intervals(),
            self.dst.den(with_members),
            None if self.dport is None else self.dport.intervals(),
            tuple(self.flags), tuple(self.logs),
        )

    def clone(self) -> "Rule":
        return copy.deepcopy(self)


def expand_flags(flags) -> frozenset:
    out = set()
    for f in flags:
        if f == "established":
            out.update(("ack", "rst"))
        else:
            out.add(f)
    return frozenset(out)


def rule_covers(top: Rule, bottom: Rule) -> Optional[bool]:
    """Exact: packets(bottom) ⊆ packets(top)?  None if undecidable (unknown group members)."""
    if top.kind != "ace" or bottom.kind != "ace":
        return False
    # protocol
    if top.proto != 0 and top.proto != bottom.proto:
        proto_ok = False
    else:
        proto_ok = True
    b_sp = ALL_PORTS if bottom.sport is None else bottom.sport.intervals()
    b_dp = ALL_PORTS if bottom.dport is None else bottom.dport.intervals()
    b_src, b_dst = bottom.src.cubes(), bottom.dst.cubes()
    if b_src is None or b_dst is None:
        return None
    # an empty bottom field => empty rule => covered by anything
    if not b_sp or not b_dp or not b_src or not b_dst:
        return True
    if not proto_ok:
        return False
    t_src, t_dst = top.src.cubes(), top.dst.cubes()
    if t_src is None or t_dst is None:
        return None
    if not cubes_subset(b_src, t_src) or not cubes_subset(b_dst, t_dst):
        return False
    # ports: a port restriction on top implies proto in {tcp, udp}; bottom without ports but with
    # proto tcp/udp matches all ports
    t_sp = ALL_PORTS if top.sport is None else top.sport.intervals()
    t_dp = ALL_PORTS if top.dport is None else top.dport.intervals()
    if (top.sport is not None or top.dport is not None) and bottom.proto not in (6, 17):
        return False
    if not iv_subset(b_sp, t_sp) or not iv_subset(b_dp, t_dp):
        return False
    # flags (match-any semantics); flags on top restrict to tcp
    tf, bf = expand_flags(top.flags), expand_flags(bottom.flags)
    if tf:
        if bottom.proto != 6 or not bf or not bf <= tf:
            return False
    return True


def rule_matches(rule: Rule, pkt) -> Optional[bool]:
    """pkt = (proto, src, sport, dst, dport, flags:frozenset)."""
    proto, src, sport, dst, dport, flags = pkt
    if rule.proto != 0 and rule.proto != proto:
        return False
    for addr, a in ((rule.src, src), (rule.dst, dst)):
        cubes = addr.cubes()
        if cubes is None:
            return None
        if not any(c.contains_addr(a) for c in cubes):
            return False
    for pm, p in ((rule.sport, sport), (rule.dport, dport)):
        if pm is not None:
            if proto not in (6, 17) or p is None or not iv_contains(pm.intervals(), p):
                return False
    tf = expand_flags(rule.flags)
    if tf:
        if proto != 6 or not (tf & flags):
            return False
    return True


def first_match(rules, pkt):
    """-> ("permit"|"deny"|"implicit-deny"|None)  None = undecidable."""
    for r in rules:
        if r.kind != "ace":
            continue
        m = rule_matches(r, pkt)
        if m is None:
            return None
        if m:
            return r.action
    return "implicit-deny"


def witness_packets(rule: Rule):
    """For every field one value inside and (where it exists) some just outside."""
    if rule.kind != "ace":
        return []
    srcs, dsts = rule.src.cubes(), rule.dst.cubes()
    if not srcs or not dsts:
        return []
    protos = [rule.proto] if rule.proto else [6, 17, 1]
    if rule.proto not in (0,):
        protos.append(6 if rule.proto != 6 else 17)
    src_vals = [srcs[0].sample_in(), *srcs[0].samples_out()[:2]]
    dst_vals = [dsts[0].sample_in(), *dsts[0].samples_out()[:2]]
    if len(srcs) > 1:
        src_vals.append(srcs[-1].sample_in())
    if len(dsts) > 1:
        dst_vals.append(dsts[-1].sample_in())

    def port_vals(pm):
        if pm is None:
            return [1024]
        iv = pm.intervals()
        vals = []
        for lo, hi in iv[:3]:
            vals.extend([lo, hi])
            if lo > 1:
                vals.append(lo - 1)
            if hi < MAXP:
                vals.append(hi + 1)
        if not iv:
            vals = [1, MAXP]
        return sorted(set(vals))[:6]

    flag_sets = [frozenset()]
    for f in expand_flags(rule.flags):
        flag_sets.append(frozenset([f]))
    if rule.flags:
        flag_sets.append(frozenset(["syn"]) if "syn" not in expand_flags(rule.flags)
                         else frozenset(["fin"]))
    pkts = []
    sps, dps = port_vals(rule.sport), port_vals(rule.dport)
    for pr in protos[:3]:
        for i, s in enumerate(src_vals):
            for j, d in enumerate(dst_vals):
                if i and j:
                    continue  # vary one address at a time
                for k, sp in enumerate(sps):
                    for m, dp in enumerate(dps):
                        if (k and m) or ((i or j) and (k or m)):
                            continue
                        for fl in flag_sets:
                            pkts.append((pr, s, sp, d, dp, fl))
    return pkts


# ------------------------------------------------------------------ reader


def _is_ip(tok: str) -> bool:
    parts = tok.split(".")
    if len(parts) != 4:
        return False
    return all(p.isdigit() and 0 <= int(p) <= 255 for p in parts)


def _ip(tok: str) -> int:
    if not _is_ip(tok):
        raise ReadError(f"not an IPv4 address: {tok!r}")
    return int(IPv4Address(tok))


def proto_table(platform: str) -> dict:
    return lib_protocol.PROTOCOL_TO_NR[platform]


_PORT_TABLES: dict = {}


def port_table(platform: str, version: str, proto: int) -> dict:
    """The library's name table (trusted data), as it was when first asked for: the harness keeps
    its own copy, so that whatever a run does to dicts handed out by the library afterwards cannot
    change what the independent reader accepts."""
    if proto not in (6, 17):
        return {}
    key = (platform, version or "0", proto)
    if key not in _PORT_TABLES:
        _PORT_TABLES[key] = dict(PortName(protocol="tcp" if proto == 6 else "udp",
                                          platform=platform, version=version or "0").names())
    return dict(_PORT_TABLES[key])


for _pl in ("ios", "nxos", "asa"):
    for _ve in ("0", "15.2", "16.9", "9.3", "17.3"):
        for _pr in (6, 17):
            port_table(_pl, _ve, _pr)


class Reader:
    """Independent tokenizer for rendered / generated ACL text of one platform."""

    def __init__(self, platform: str, version: str = "0", strict: bool = True):
        self.platform = platform
        self.version = version
        self.strict = strict  # strict = only syntax valid on this platform (target-grammar check)

    # addresses
    def _addr(self, toks, i, standard=False):
        if i >= len(toks):
            raise ReadError("address expected")
        t = toks[i]
        if t == "any":
            return AddrM(cube=Cube(0, 0)), i + 1
        if t == "host":
            return AddrM(cube=Cube(_ip(toks[i + 1]), ALL32)), i + 2
        if t in ("object-group", "addrgroup"):
            if self.strict:
                want = "addrgroup" if self.platform == "nxos" else "object-group"
                if t != want:
                    raise ReadError(f"{t!r} is not valid on {self.platform}")
            if i + 1 >= len(toks):
                raise ReadError("group name expected")
            return AddrM(group=toks[i + 1], members=None), i + 2
        if "/" in t:
            if self.strict and self.platform != "nxos":
                raise ReadError(f"prefix notation {t!r} is not valid on {self.platform}")
            a, ln = t.split("/", 1)
            if not ln.isdigit() or not 0 <= int(ln) <= 32:
                raise ReadError(f"bad prefix length {t!r}")
            wild = (1 << (32 - int(ln))) - 1
            base = _ip(a)
            if self.strict and base & wild:
                raise ReadError(f"prefix {t!r} has host bits set")
            return AddrM(cube=Cube.wild(base, wild)), i + 1
        if _is_ip(t):
            if i + 1 < len(toks) and _is_ip(toks[i + 1]):
                return AddrM(cube=Cube.wild(_ip(t), _ip(toks[i + 1]))), i + 2
            if standard:
                return AddrM(cube=Cube(_ip(t), ALL32)), i + 1
        raise ReadError(f"address expected at {t!r}")

    def _port(self, toks, i, proto):
        if i >= len(toks) or toks[i] not in OPERATORS:
            return None, i
        op = toks[i]
        table = port_table(self.platform, self.version, proto)
        if proto not in (6, 17):
            raise ReadError(f"port operator {op!r} with protocol {proto}")
        vals = []
        j = i + 1
        while j < len(toks):
            t = toks[j]
            if t in OPTION_TOKENS:
                break
            if t.isdigit():
                v = int(t)
            elif t in table:
                v = table[t]
            else:
                break
            vals.append(v)
            j += 1
        if not vals:
            raise ReadError(f"operand expected after {op!r}")
        if op in ("lt", "gt") and len(vals) != 1:
            raise ReadError(f"{op} takes one operand")
        if op == "range" and len(vals) != 2:
            raise ReadError("range takes two operands")
        if self.strict and self.platform != "ios" and op in ("eq", "neq") and len(vals) != 1:
            raise ReadError(f"{op} with {len(vals)} ports is not valid on {self.platform}")
        if any(not 0 <= v <= MAXP for v in vals):
            raise ReadError("port out of range")
        return PortM(op, tuple(vals)), j

    def ace_or_remark(self, line: str, standard: bool = False) -> Rule:
        toks = line.split()
        i = 0
        seq = 0
        if toks and toks[0].isdigit():
            seq = int(toks[0])
            i = 1
        if i >= len(toks):
            raise ReadError("empty line")
        if toks[i] == "remark":
            text = " ".join(toks[i + 1:])
            if not text:
                raise ReadError("remark without text")
            return Rule(kind="remark", seq=seq, text=text)
        if toks[i] not in ("permit", "deny"):
            raise ReadError(f"action expected at {toks[i]!r}")
        action = toks[i]
        i += 1
        if standard:
            src, i = self._addr(toks, i, standard=True)
            flags, logs = self._options(toks, i)
            if flags:
                raise ReadError("flags on a standard ACE")
            return Rule(kind="ace", seq=seq, action=action, proto=0, src=src,
                        dst=AddrM(cube=Cube(0, 0)), logs=logs, standard=True)
        if i >= len(toks):
            raise ReadError("protocol expected")
        pt = toks[i]
        if pt.isdigit():
            proto = int(pt)
            if not 0 <= proto <= 255:
                raise ReadError("protocol out of range")
        else:
            table = proto_table(self.platform) if self.strict else lib_protocol.PROTOCOLS_ANY
            if pt not in table:
                raise ReadError(f"protocol name {pt!r} is not valid on {self.platform}")
            proto = table[pt]
        i += 1
        src, i = self._addr(toks, i)
        sport, i = self._port(toks, i, proto)
        dst, i = self._addr(toks, i)
        dport, i = self._port(toks, i, proto)
        flags, logs = self._options(toks, i)
        return Rule(kind="ace", seq=seq, action=action, proto=proto, src=src, sport=sport, dst=dst,
                    dport=dport, flags=flags, logs=logs)

    @staticmethod
    def _options(toks, i):
        flags, logs = [], []
        for t in toks[i:]:
            if t in LOGS:
                logs.append(t)
            elif t in FLAGS:
                flags.append(t)
            else:
                raise ReadError(f"unexpected token {t!r}")
        return tuple(flags), tuple(logs)

    def header(self, line: str):
        """-> (type, name)."""
        toks = line.split()
        if toks[:2] != ["ip", "access-list"]:
            raise ReadError(f"not an ACL header: {line!r}")
        rest = toks[2:]
        if self.platform == "nxos":
            if len(rest) != 1:
                raise ReadError(f"NX-OS header with type word or no name: {line!r}")
            return "extended", rest[0]
        if len(rest) != 2 or rest[0] not in ("extended", "standard"):
            raise ReadError(f"IOS header needs a type word: {line!r}")
        return rest[0], rest[1]

    def acl(self, text: str):
        """-> (type, name, [Rule...], [raw body lines])."""
        lines = [ln for ln in text.split("\n")]
        type_, name = self.header(lines[0])
        rules = []
        for ln in lines[1:]:
            if not ln.strip():
                continue
            rules.append(self.ace_or_remark(ln, standard=(type_ == "standard")))
        return type_, name, rules


# ------------------------------------------------------------------ ACL model


@dataclass
class Block:
    """Top-level item of an ACL: a single rule or a group of rules."""

    rules: list
    grouped: bool = False
    name: str = ""
    seq: int = 0

    def clone(self):
        return Block([r.clone() for r in self.rules], self.grouped, self.name, self.seq)


@dataclass
class AclM:
    name: str
    type: str = "extended"
    platform: str = "ios"
    version: str = "0"
    port_nr: bool = False
    protocol_nr: bool = False
    indent: str = "  "
    group_by: str = ""
    max_ncwb: int = 16
    blocks: list = field(default_factory=list)

    def flat(self):
        return [r for b in self.blocks for r in b.rules]

    def shape(self):
        return tuple((b.grouped, len(b.rules)) for b in self.blocks)

    def clone(self):
        c = copy.copy(self)
        c.blocks = [b.clone() for b in self.blocks]
        return c


def group_blocks(rules, prefix):
    """Reference semantics of Acl.group(prefix) on a flat rule list -> list[Block].

    Cut before every remark whose text starts with `prefix`; rules before the first heading form
    an anonymous block.  Conservation demands every rule lands in exactly one block, in order.
    """
    blocks = []
    cur = Block([], grouped=True, name="")
    for r in rules:
        if r.kind == "remark" and r.text.startswith(prefix):
            if cur.rules:
                blocks.append(cur)
            cur = Block([r], grouped=True, name=r.text)
            continue
        cur.rules.append(r)
    if cur.rules:
        blocks.append(cur)
    return blocks
