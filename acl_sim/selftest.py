"""Determinism self-test (DESIGN.md 11.1): every run seed twice in one process, at worker counts
1/4/16, and in fresh interpreters under PYTHONHASHSEED=1 and =random; all digests must agree."""

from __future__ import annotations

import os
import subprocess
import sys
import time

from . import core
from .core import VERIF_DIR
from .driver import _REG, registry


def main(argv) -> int:
    props = argv or sorted(_REG)
    n = int(os.environ.get("SELFTEST_RUNS", "200"))
    bad = 0
    t0 = time.time()
    for prop in props:
        cls = registry()[prop]
        base = {}
        for workers in (16, 4, 1):
            idxs = range(n if workers == 16 else n // 4)
            res = core.run_batch(cls, prop, "quick", 0, idxs, workers)
            for r in res:
                if "digest" not in r:
                    print(f"{prop}: run {r['idx']} harness error")
                    bad += 1
                    continue
                d = base.setdefault(r["idx"], r["digest"])
                if d != r["digest"]:
                    print(f"{prop}: run {r['idx']} digest differs at workers={workers}")
                    bad += 1
        for hs in ("1", "random"):
            env = dict(os.environ, PYTHONHASHSEED=hs)
            idxs = [str(i) for i in range(0, n, 4)]
            p = subprocess.run(
                [sys.executable, os.path.join(VERIF_DIR, "check.py"), "digests", prop, "quick", "0",
                 *idxs], capture_output=True, text=True, env=env, timeout=3600)
            got = dict(ln.split() for ln in p.stdout.splitlines() if len(ln.split()) == 2)
            for i in idxs:
                if got.get(i) != base.get(int(i)):
                    print(f"{prop}: run {i} digest differs under PYTHONHASHSEED={hs}")
                    bad += 1
        print(f"{prop}: {len(base)} run seeds x (3 worker counts, 2 fresh interpreters): "
              f"{'OK' if not bad else 'MISMATCH'}  [{time.time() - t0:.0f}s]")
        sys.stdout.flush()
    return 2 if bad else 0
