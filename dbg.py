import sys, os, json
sys.path.insert(0,'/verif'); sys.path.insert(0,os.environ.get('VERIF_REPO','/repo'))
from acl_sim import core, driver
prop, idx = sys.argv[1], int(sys.argv[2])
tier = sys.argv[3] if len(sys.argv)>3 else 'quick'
cls = driver.registry()[prop]
r = core.generate_run(cls, prop, tier, int(os.environ.get('VERIF_SEED','0')), idx)
print(json.dumps(r['failure'], indent=1))
print(json.dumps(r['cfg']))
for i,o in enumerate(r['ops']): print(i, json.dumps(o))
