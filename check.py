#!/venv/bin/python
"""Launcher.  Usage:
    check.py <ID> quick|thorough      honours VERIF_SEED, VERIF_TIER, VERIF_BUDGET_S, VERIF_WORKERS
    check.py replay <file>
    check.py digests <ID> <tier> <verif_seed> <idx>...
    check.py selftest-determinism [<ID>...]
Exit: 0 held / 1 VIOLATION / 2 harness error.
"""

import os
import sys

HERE = os.path.dirname(os.path.abspath(__file__))


def main(argv):
    want_hs = None
    if argv and argv[0] == "replay" and len(argv) > 1:
        # a replay file names the str-hash seed of the process it was recorded in
        try:
            import json

            with open(argv[1]) as fh:
                want_hs = str(json.load(fh).get("hashseed", "0"))
        except (OSError, ValueError):
            want_hs = None
    have = os.environ.get("PYTHONHASHSEED")
    if have is None or (want_hs is not None and have != want_hs):
        env = dict(os.environ)
        env["PYTHONHASHSEED"] = want_hs or "0"
        os.execve(sys.executable, [sys.executable, os.path.abspath(__file__), *argv], env)
    repo = os.environ.get("VERIF_REPO", "/repo")
    sys.path.insert(0, HERE)
    sys.path.insert(0, repo)
    sys.dont_write_bytecode = True
    import logging

    logging.raiseExceptions = True
    import cisco_acl  # noqa: F401  (must come from the working tree)

    if not os.path.abspath(cisco_acl.__file__).startswith(os.path.abspath(repo)):
        print(f"HARNESS-ERROR: cisco_acl imported from {cisco_acl.__file__}, not {repo}")
        return 2
    from acl_sim import driver

    if not argv:
        print(__doc__)
        return 2
    cmd = argv[0]
    try:
        if cmd == "replay":
            return driver.replay_cmd(argv[1])
        if cmd == "digests":
            driver.digests_cmd(argv[1], argv[2], int(argv[3]), [int(a) for a in argv[4:]])
            return 0
        if cmd == "selftest-determinism":
            from acl_sim import selftest

            return selftest.main(argv[1:])
        tier = argv[1] if len(argv) > 1 else os.environ.get("VERIF_TIER", "quick")
        return driver.run_check(cmd, tier)
    except Exception:  # harness failure is never a pass and never a VIOLATION
        import traceback

        print("HARNESS-ERROR:", traceback.format_exc())
        return 2


if __name__ == "__main__":
    sys.exit(main(sys.argv[1:]))
