import sys, os, json
sys.path.insert(0,'/verif'); sys.path.insert(0,os.environ.get('VERIF_REPO','/repo'))
from acl_sim import core, driver
prop, oracle = sys.argv[1], sys.argv[2]
lo, hi = int(sys.argv[3]), int(sys.argv[4])
cls = driver.registry()[prop]
n=0
for idx in range(lo,hi):
    r = core.generate_run(cls, prop, os.environ.get('TIER','quick'), int(os.environ.get('VERIF_SEED','0')), idx)
    f=r['failure']
    if f and f['oracle']==oracle:
        ops=core.shrink(cls,prop,'quick',r['cfg'],r['ops'],f, budget_s=40)
        r2=core.replay_ops(cls,prop,'quick',r['cfg'],ops)
        print('idx',idx,'shrunk',len(r['ops']),'->',len(ops))
        for o in ops: print('  ',json.dumps(o)[:700])
        print(r2['failure']['msg'][:1800]); print(r2['failure']['disc'])
        n+=1
        if n>=int(os.environ.get('N','1')): break
