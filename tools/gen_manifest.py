#!/usr/bin/env python3
"""Regenerate /verif/MANIFEST.json from the table below (development aid, not a check)."""
import json
import os

HERE = os.path.dirname(os.path.dirname(os.path.abspath(__file__)))

NA = {
    "C01": "pure function of (ACE text, platform, version, switches): no schedule, clock, fault, seam or history in it; input generation would be property-based testing, not simulation (DESIGN.md 7/C01)",
    "C03": "pure two-object query (Ace.shadow_of) that modifies nothing and reads only current fields; a for-all-pairs implication is input generation, not simulation (DESIGN.md 7/C03)",
    "C06": "pure parse/render round trip per object; the history-reachable variant is C17's fix-point invariant and is decided there (DESIGN.md 7/C06)",
    "C07": "config-level extraction is a pure function of the configuration text; no state is carried between calls (DESIGN.md 7/C07)",
    "C09": "finite name tables; the property itself calls for complete enumeration, which is exhaustive checking, not seeded search over schedules/faults (DESIGN.md 7/C09)",
    "C11": "exactness of a pure query over pairs of objects / one ACL state; no history, seam or fault (DESIGN.md 7/C11)",
    "C13": "subnet_of / in are pure queries over two objects' current fields (DESIGN.md 7/C13)",
    "C14": "collapse() is a pure function from a list to a new list, inputs are not modified (DESIGN.md 7/C14)",
    "C18": "range_ports/range_protocols compute a list of strings from their arguments only (DESIGN.md 7/C18)",
    "C20": "robustness of pure constructors to arbitrary text is input fuzzing; termination on an input is not liveness under faults (DESIGN.md 7/C20)",
}

PENDING_REASON = "check under construction (simulation target, DESIGN.md section 7); not claimed until its machine is built and soaked"

CLAIMED = {
    "C05": dict(
        machine="M-WC",
        technique="deterministic simulation with fault injection: seeded operation histories (query/reassign/query) on live Wildcard/Address/address-group objects, each run in a forked child; injected memo faults (clear, bypass, resize knob, pressure, caller scribbling the returned list), GC + drop + re-allocation (id reuse), same-identifier twins, log-sink failure during an assignment, root log level knob, process start under another PYTHONHASHSEED (sub-check); invariant checks against a bit-algebra reference model after every step",
        text="Seeded search over histories of <= 40 public operations on <= 6 live objects, interleaved with faults on the process-global memo seam; after every step every derived value (ipnets/ipnet/prefix/wildmask/data) is compared with an exact bit-algebra model of the line the object reports, and accept/reject is compared with the limit. Sampling, not proof: a clean batch is evidence that stale or approximated results do not occur on the explored histories.",
        note="Trusted: python ipaddress, the harness's own bit algebra; ipnets() enumerated only up to 12 non-contiguous bits; memo faults act only if an lru_cache is reachable from cisco_acl.wildcard (discovered at run time).",
        ref="7/C05",
    ),
    "C08": dict(
        machine="M-PORT",
        technique="deterministic simulation (degenerate: no seam is touched by Port; faults = library-raised refusals, out-of-domain expressions built by another client of the process, process start under another PYTHONHASHSEED): seeded histories of line assignments, new operands and write-backs through items/ports/sport (the very list objects the views return, also edited in place), transfers between live objects, emptying and refused writes, checked step by step against a set-denotation reference model, an independent range-string codec and a consistency-after-refusal invariant",
        text="Seeded search over histories of <= 30 operations per Port object; after every step the port set, the range string (own decoder/encoder and the library's), the rendered text (independent reader) and the write-back invariance are checked against the model (operator, operands).",
        note="Trusted: port-name tables as data; harness denotation of the five operators. No seam is touched by Port, so no fault other than library-raised aborts is injected (said in DESIGN.md).",
        ref="7/C08",
    ),
    "C12": dict(
        machine="M-BUILD",
        technique="deterministic simulation with fault injection on the log sink: seeded histories of constructions and text assignments (both platforms and software versions in one process, same text re-assigned after in-place edits, objects converted - or refused conversion - before assignment) from mixed valid/ignorable/invalid bodies, with the root logger as a simulator-owned channel whose downstream handler raises or detaches at the k-th record, plus a sub-check under another PYTHONHASHSEED; accounting identity checked over the recorded history",
        text="Seeded search over body texts and sink-failure points; every non-empty body line must be an item in order, an ignorable line, a captured record naming it, or the whole call fails.",
        note="Trusted: validity-by-construction of generated valid lines (generator independent of the library), the harness reader.",
        ref="7/C12",
    ),
    "C16": dict(
        machine="M-OBJ",
        technique="deterministic simulation: seeded copy / export-import (with and without identifiers) then mutate-one-observe-other histories over all exported classes with a deterministic id source; exact object-graph aliasing walk (copy vs source, copy vs copy, ACLs of one acls(config) call), interleaving of operations on source and copy against an isolated control with GC events, uuid/note stability map at four levels (also after refused transformations) and identifier uniqueness after every step; root log level knob and a sub-check under another PYTHONHASHSEED",
        text="Seeded search over objects of all exported classes and mutation histories; structural aliasing between copy and source is decided exactly per pair; behavioural independence and identifier/note stability across in-place transformations are checked step by step.",
        note="Trusted: Python object identity/graph walk; the deterministic id source (stub for uuid1).",
        ref="7/C16",
    ),
}
for pid, title in [("C02", "platform flips"), ("C04", "shading/delete_shadow triples"),
                   ("C10", "resequence calls"), ("C15", "group/ungroup/sort/permute"),
                   ("C17", "the full operation alphabet"), ("C19", "ungroup_ports calls")]:
    CLAIMED[pid] = dict(
        machine="M-ACL",
        technique=f"deterministic simulation with fault injection: seeded histories of public operations on one or two live ACLs (independent, sharing item objects, or template twins with other group members; biased to {title}), each run in a forked child, under memo faults (clear/bypass inside operations, size knob, pressure, scribbled results), GC/drop events, foreign-platform parses, library-raised aborts (histories continue on the object where its state stays consistent), root log level knob and process start under another PYTHONHASHSEED (sub-check); after every step refinement against an executable reference model through an independent reader, text fix-point, twin differential, aliasing invariants and cross-object interference check",
        text=f"Seeded search over operation histories (<= 40 ops, ACL <= 12 lines) with {title} at arbitrary history points; the oracles owned by {pid} (DESIGN.md section 7) are evaluated against an exact cube/interval model on every such step; failures are minimised and replayed in a fresh interpreter.",
        note="Trusted: port/protocol name tables as data (C09 not claimed); the harness's reader, cube/interval algebra and reference semantics of the operations; TCP-flag semantics = match-any.",
        ref=f"7/{pid}",
    )

BUILT = [p for p in sorted(CLAIMED) if os.path.exists(os.path.join(HERE, "evidence", f"{p}.json"))]


def main():
    checks = []
    for pid in BUILT:
        c = CLAIMED[pid]
        checks.append(dict(
            property_id=pid,
            quick_cmd=f"/venv/bin/python /verif/check.py {pid} quick",
            thorough_cmd=f"/venv/bin/python /verif/check.py {pid} thorough",
            evidence_file=f"/verif/evidence/{pid}.json",
            replay_cmd_template="/venv/bin/python /verif/check.py replay {path}",
            engine="acl_sim",
            level_claimed=dict(category="exploration", text=c["text"], design_ref=c["ref"]),
            level_note=c["note"],
            technique=c["technique"],
        ))
    na = [dict(property_id=k, reason=v) for k, v in NA.items()]
    na += [dict(property_id=k, reason=PENDING_REASON) for k in sorted(CLAIMED) if k not in BUILT]
    manifest = dict(
        version=1,
        setup_cmd="/venv/bin/python -c \"import sys; sys.path.insert(0,'/repo'); import cisco_acl, netports, vhelpers; print('setup ok')\"",
        hooks=dict(
            guard="CISCO_ACL_VERIF",
            enable="no source hooks: all seams (uuid1, lru_cache memo of cisco_acl.wildcard, root logger handlers) are module attributes patched from outside by the simulator; the guard name is reserved and unused",
            baseline_off_cmd="cd /repo && /venv/bin/python -m pytest -ra -q -p no:cacheprovider --timeout=900 --continue-on-collection-errors",
            source_commits=[],
            add_only=True,
        ),
        engines=[dict(name="acl_sim", path="/verif/acl_sim", serves_properties=BUILT,
                      kind_free_text="own seeded deterministic simulator (PRNG streams from VERIF_SEED via splitmix64; PRNG-free JSON op lists as replay files; ddmin shrinker; fork pool); real cisco_acl code, stubbed uuid1, simulator-owned memo and log seams")],
        checks=checks,
        notes="Deterministic simulation with fault injection; see DESIGN.md. Exit codes: 0 held (possibly with KNOWN-FINDING lines), 1 VIOLATION, 2 harness error. known_findings.json lists genuine defects (open/fixed); corpus/ holds minimised op lists replayed by every run; seeded/ holds independently written breaking changes used to test the checks.",
        not_applicable=na,
    )
    with open(os.path.join(HERE, "MANIFEST.json"), "w") as fh:
        json.dump(manifest, fh, indent=1)
    print("claimed:", BUILT)


if __name__ == "__main__":
    main()
