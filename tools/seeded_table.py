#!/usr/bin/env python3
"""Markdown rows for DESIGN.md from run_seeded.py output lines (stdin or files) + seeded/<id>/meta.json."""
import json, os, sys
VERIF = os.path.dirname(os.path.dirname(os.path.abspath(__file__)))
first = {}
if len(sys.argv) > 2:  # optional: file with first-pass results
    for l in open(sys.argv[2]):
        if l.startswith("{"):
            d = json.loads(l); first[d["id"]] = d.get("caught_by_own_check")
print("| id | change (summary by its author, truncated) | oracle(s) that fire (quick tier) | caught at first try |")
print("|----|----|----|----|")
for l in open(sys.argv[1]):
    if not l.startswith("{"):
        continue
    d = json.loads(l)
    meta = json.load(open(os.path.join(VERIF, "seeded", d["id"], "meta.json")))
    c = d["checks"][d["property"]]
    orc = sorted({o.split()[0].split("=")[1] for o in c["oracle"]})
    f = first.get(d["id"])
    how = "yes" if f else ("no → yes" if d["caught_by_own_check"] else "no")
    print(f"| {d['id']} | {meta['summary'][:100].replace('|','/')} | {', '.join(orc) or '—'} | {how} |")
