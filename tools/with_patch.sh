#!/bin/bash
# usage: with_patch.sh <seeded dir> <command...>   (runs command with VERIF_REPO=<scratch copy with patch>)
d=$(realpath "$1"); shift
s=/dev/shm/wp_$$; rm -rf $s; mkdir -p $s
rsync -a --exclude .git --exclude __pycache__ /repo/ $s/
(cd $s && patch -s -p1 < $d/patch.diff) || { echo "patch failed"; rm -rf $s; exit 3; }
VERIF_REPO=$s "$@"; rc=$?
rm -rf $s; exit $rc
