#!/usr/bin/env python3
"""Sensitivity mutants (DESIGN.md 11.2): string-replacement mutants of /repo applied to a scratch
copy; each is run through the repository's test suite (realistic = suite still passes) and through
the check of the property it targets.  Development aid; /repo is never modified.

usage: run_mutants.py [--tier quick] [<name substring>...]
"""
import json
import os
import shutil
import subprocess
import sys
import time

VERIF = os.path.dirname(os.path.dirname(os.path.abspath(__file__)))
PY = "/venv/bin/python"

M = [
    # (name, property, file, old, new)
    ("C02-acl-skip-ungroup-ports", "C02", "cisco_acl/acl.py",
     '        if platform == "nxos":\n            self.ungroup_ports()\n', ""),
    ("C02-ios-host-as-wildcard", "C02", "cisco_acl/address_base.py",
     '                if self.ipnet.prefixlen == 32:\n                    self._type = "host"\n                elif str(self.ipnet) == "0.0.0.0/0":\n                    self._type = "any"\n                else:\n                    self._type = "wildcard"',
     '                if str(self.ipnet) == "0.0.0.0/0":\n                    self._type = "any"\n                else:\n                    self._type = "prefix"'),
    ("C02-members-not-converted", "C02", "cisco_acl/address_base.py",
     "        for item in self._items:\n            item.platform = self._platform\n\n        data = self.data(uuid=True)\n        self.__init__(**data)",
     "        data = self.data(uuid=True)\n        self.__init__(**data)"),
    ("C04-index-without-plus1", "C04", "cisco_acl/acl.py",
     "idx = aces.index(top) + 1", "idx = aces.index(top)"),
    ("C04-drop-shadow-filter", "C04", "cisco_acl/acl.py",
     "            shadow = [s for s in shadow if top != s]\n", ""),
    ("C04-port-any-overlap", "C04", "cisco_acl/ace.py",
     "            diff = bottom.intersection(top)\n            return diff == bottom\n        return False\n\n    def _shadow_of__dstport",
     "            diff = bottom.intersection(top)\n            return bool(diff)\n        return False\n\n    def _shadow_of__dstport"),
    ("C04-across-actions", "C04", "cisco_acl/ace.py",
     "        if self._action != other.action:\n            return False\n        if not self._shadow_of__protocol", "        if not self._shadow_of__protocol"),
    ("C05-limit-ge", "C05", "cisco_acl/wildcard.py", "if count > self.max_ncwb:", "if count >= self.max_ncwb and count:"),
    ("C05-memo-per-object-again", "C05", "cisco_acl/wildcard.py",
     "    def ipnets(self) -> LIpNet:", "    @lru_cache\n    def ipnets(self) -> LIpNet:"),
    ("C05-validate-after-assign", "C05", "cisco_acl/wildcard.py",
     "        ncwb, prefixlen = self._create_ncwb(wildmask_o)  # raises before self is changed\n        self._prefix = prefix_o\n        self._wildmask = wildmask_o\n        self.ipnet = self._create_ipnet()\n",
     "        self._prefix = prefix_o\n        self._wildmask = wildmask_o\n        self.ipnet = self._create_ipnet()\n        ncwb, prefixlen = self._create_ncwb(wildmask_o)\n"),
    ("C05-memo-key-without-prefix", "C05", "cisco_acl/wildcard.py",
     "return list(_ipnets(int(self._prefix), tuple(self._ncwb), self._prefixlen))",
     "return list(_ipnets(int(self._prefix) >> 8 << 8, tuple(self._ncwb), self._prefixlen))"),
    ("C08-gt-inclusive", "C08", "cisco_acl/port.py", "if i > items[0]]", "if i >= items[0]]"),
    ("C08-range-exclusive", "C08", "cisco_acl/port.py", "range(items[0], items[-1] + 1)", "range(items[0], items[-1])"),
    ("C08-lt-second-port", "C08", "cisco_acl/port.py", "[max(ports) + 1] if ports else [1]", "[ports[1] + 1]"),
    ("C08-decoder-unsorted-range", "C08", "cisco_acl/port.py", "return [min(ports), max(ports)]", "return [ports[0], ports[-1]]"),
    ("C10-last-also-incremented", "C10", "cisco_acl/ace_group.py", "            if id_ < count:\n                sequence += step\n        return sequence", "            sequence += step\n        return sequence"),
    ("C10-max-ge", "C10", "cisco_acl/helpers.py", "if sequence > SEQUENCE_MAX:", "if sequence >= SEQUENCE_MAX:"),
    ("C10-step-zero-allowed", "C10", "cisco_acl/helpers.py", "if start and step < 1:", "if start and step < 0:"),
    ("C10-addrgroup-skips-first", "C10", "cisco_acl/addr_group.py", "        for id_, item in enumerate(items, start=1):\n            item.sequence = sequence", "        for id_, item in enumerate(items, start=1):\n            if id_ > 1 or count == 1:\n                item.sequence = sequence"),
    ("C12-broad-except-no-warning", "C12", "cisco_acl/ace_group.py", "                if warning:\n                    msg = f\"{type(ex).__name__}: {ex}. {line=} does not match ACE pattern\"\n                    logging.warning(msg)\n                return None", "                return None"),
    ("C12-drop-second-warning", "C12", "cisco_acl/ace_group.py", "        if warning:\n            msg = f\"{line=} does not match ACE pattern\"\n            logging.warning(msg)\n        return None", "        return None"),
    ("C12-known-skip-evaluate", "C12", "cisco_acl/ace_group.py", 'known_skip = ["statistics ", "description ", "ignore "]', 'known_skip = ["statistics ", "description ", "ignore ", "evaluate ", "no "]'),
    ("C12-addrgroup-items-silent", "C12", "cisco_acl/addr_group.py", "                    msg = f\"invalid {line=}\"\n                    logging.warning(msg)\n                    continue", "                    continue"),
    ("C12-acl-line-drops-remarks", "C12", "cisco_acl/acl.py", "            if isinstance(ace_o, (Ace, Remark)):\n                aces.append(ace_o)\n        self.items = aces", "            if isinstance(ace_o, Ace) or (isinstance(ace_o, Remark) and not aces[-1:] == [ace_o]):\n                aces.append(ace_o)\n        self.items = aces"),
    ("C15-group-eq-instead-of-startswith", "C15", "cisco_acl/acl.py", "if item.text.startswith(group_by):", "if item.text.split(\",\")[0] == group_by + item.text[len(group_by):].split(\",\")[0] and item.text.startswith(group_by) and len(item.text) < 40:"),
    ("C15-tcam-plus", "C15", "cisco_acl/ace_group.py", "counter += src_counter * dst_counter", "counter += src_counter + dst_counter - 1"),
    ("C15-acegroup-lt-inverted", "C15", "cisco_acl/ace_group.py", "            return self._sequence < other.sequence\n        return False\n\n    # =========================== property ===========================\n\n    @property\n    def group_by", "            return self._sequence > other.sequence\n        return False\n\n    # =========================== property ===========================\n\n    @property\n    def group_by"),
    ("C15-ungroup-not-recursive", "C15", "cisco_acl/acl.py", "        self._group_by = \"\"\n        self.items = list(self._ungroup(self._items))", "        self._group_by = \"\"\n        self.items = [o for o in self._ungroup(self._items) if not (isinstance(o, Remark) and o.sequence == 1)]"),
    ("C16-input-not-copied", "C16", "cisco_acl/acl.py", "input=self._input.copy(),", "input=self._input,"),
    ("C16-ace-platform-no-uuid", "C16", "cisco_acl/ace.py", "        self._option.platform = self._platform\n        data = self.data(uuid=True)", "        self._option.platform = self._platform\n        data = self.data(uuid=False)"),
    ("C16-address-data-drops-note", "C16", "cisco_acl/address_base.py", "            note=self.note,\n            items=[o.data(uuid=uuid) for o in self._items],", "            items=[o.data(uuid=uuid) for o in self._items],"),
    ("C16-option-flags-aliased", "C16", "cisco_acl/option.py", "        self._line: str = \"\"\n        self._flags: LStr = []", "        self._line: str = \"\"\n        self._flags: LStr = kwargs.get(\"flags\") if isinstance(kwargs.get(\"flags\"), list) else []"),
    ("C17-port_nr-no-reinit", "C17", "cisco_acl/ace_base.py", "        self._port_nr = bool(port_nr)\n        data = self.data(uuid=True)\n        self.__init__(**data)  # type: ignore", "        self._port_nr = bool(port_nr)"),
    ("C17-items-setter-no-regroup", "C17", "cisco_acl/acl.py", "        self._items = _items\n\n        if self._group_by:\n            self.group(group_by=self._group_by)", "        self._items = _items"),
    ("C17-remark-platform-loses-seq", "C17", "cisco_acl/remark.py", "        self._sequence = h.init_int(ace_d[\"sequence\"])\n        self._text", "        self._sequence = h.init_int(ace_d[\"sequence\"]) if self._platform == \"ios\" else self._sequence\n        self._text"),
    ("C19-drop-last-operand", "C19", "cisco_acl/ace.py", "                for item in ace_o_.dstport.items:\n", "                for item in (ace_o_.dstport.items[:-1] if len(ace_o_.dstport.items) > 3 else ace_o_.dstport.items):\n"),
    ("C19-acegroup-append-instead-of-splice", "C19", "cisco_acl/ace_group.py", "        _items: LUAce = []\n        for ace_o in self._items:\n            if isinstance(ace_o, Ace):\n                aces: LAce = ace_o.ungroup_ports()\n                _items.extend(aces)\n                continue\n            _items.append(ace_o)\n        self.items = _items", "        _items: LUAce = []\n        tail: LUAce = []\n        for ace_o in self._items:\n            if isinstance(ace_o, Ace):\n                aces: LAce = ace_o.ungroup_ports()\n                if len(aces) > 1:\n                    tail.extend(aces)\n                else:\n                    _items.extend(aces)\n                continue\n            _items.append(ace_o)\n        self.items = _items + tail"),
    ("C19-split-loses-option", "C19", "cisco_acl/ace.py", "                    ace_o = ace_o_.copy()\n                    ace_o.dstport.items = [item]\n", "                    ace_o = ace_o_.copy()\n                    ace_o.dstport.items = [item]\n                    ace_o.option.line = \" \".join(ace_o.option.logs)\n"),
]


def sh(cmd, **kw):
    return subprocess.run(cmd, capture_output=True, text=True, **kw)


def main(argv):
    tier = "quick"
    sel = []
    it = iter(argv)
    for a in it:
        if a == "--tier":
            tier = next(it)
        else:
            sel.append(a)
    rows = []
    for name, prop, path, old, new in M:
        if sel and not any(s in name for s in sel):
            continue
        scratch = f"/dev/shm/mut_{name}_{os.getpid()}"
        shutil.rmtree(scratch, ignore_errors=True)
        shutil.copytree("/repo", scratch, ignore=shutil.ignore_patterns(".git", "__pycache__"))
        row = dict(name=name, property=prop)
        try:
            fp = os.path.join(scratch, path)
            src = open(fp).read()
            if old not in src:
                row["error"] = "pattern not found"
                rows.append(row)
                print(json.dumps(row))
                continue
            open(fp, "w").write(src.replace(old, new, 1))
            t = sh([PY, "-m", "pytest", "-q", "-p", "no:cacheprovider", "tests/", "--deselect",
                    "tests/test__package.py::test__last_modified_date", "-x"], cwd=scratch,
                   timeout=900)
            row["tests_pass"] = t.returncode == 0
            t0 = time.time()
            c = sh([PY, os.path.join(VERIF, "check.py"), prop, tier],
                   env=dict(os.environ, VERIF_REPO=scratch), timeout=7200)
            row["exit"] = c.returncode
            row["oracle"] = [ln.strip()[:120] for ln in c.stdout.splitlines() if "oracle=" in ln][:2]
            row["wall_s"] = round(time.time() - t0, 1)
            if c.returncode == 2:
                row["harness"] = [ln[:300] for ln in c.stdout.splitlines() if "HARNESS" in ln][:2]
        finally:
            shutil.rmtree(scratch, ignore_errors=True)
        rows.append(row)
        print(json.dumps(row))
        sys.stdout.flush()
    os.makedirs(os.path.join(VERIF, "out"), exist_ok=True)
    json.dump(rows, open(os.path.join(VERIF, "out", f"mutant_results_{tier}.json"), "w"), indent=1)
    real = [r for r in rows if r.get("tests_pass")]
    print(f"killed {sum(1 for r in real if r.get('exit') == 1)}/{len(real)} realistic mutants "
          f"({len(rows) - len(real)} fail the suite or did not apply)")


if __name__ == "__main__":
    main(sys.argv[1:])
