#!/usr/bin/env python3
"""Run the registered checks against the seeded breaking changes (development aid).

usage: run_seeded.py [--tier quick|thorough] [--all-props] [<seeded dir>...]
For every /verif/seeded/<id>/ (patch.diff, demo.py, meta.json): copy /repo to a scratch directory
under /dev/shm, apply the patch there, confirm the repository's test suite still passes and the
demo fails, then run `check.py <property> <tier>` with VERIF_REPO pointing at the copy and report
whether it exits 1 with a VIOLATION line.  The copy is removed afterwards.  /repo is never touched.
"""
import glob
import json
import os
import shutil
import subprocess
import sys
import time

VERIF = os.path.dirname(os.path.dirname(os.path.abspath(__file__)))
PY = "/venv/bin/python"


def sh(cmd, **kw):
    return subprocess.run(cmd, capture_output=True, text=True, **kw)


def main(argv):
    tier = "quick"
    all_props = False
    skip_tests = False
    dirs = []
    it = iter(argv)
    for a in it:
        if a == "--tier":
            tier = next(it)
        elif a == "--all-props":
            all_props = True
        elif a == "--skip-tests":
            skip_tests = True
        else:
            dirs.append(a)
    if not dirs:
        dirs = sorted(glob.glob(os.path.join(VERIF, "seeded", "*")))
    rows = []
    for d in dirs:
        d = os.path.abspath(d.rstrip("/"))
        meta = json.load(open(os.path.join(d, "meta.json")))
        prop = meta["property"]
        scratch = f"/dev/shm/seeded_{os.path.basename(d)}_{os.getpid()}"
        shutil.rmtree(scratch, ignore_errors=True)
        sh(["git", "-C", "/repo", "worktree", "prune"])
        shutil.copytree("/repo", scratch, ignore=shutil.ignore_patterns(".git", "__pycache__"))
        row = dict(id=os.path.basename(d), property=prop)
        try:
            p = sh(["git", "apply", "--unsafe-paths", f"--directory={scratch}",
                    os.path.join(d, "patch.diff")], cwd="/")
            if p.returncode:
                p = sh(["patch", "-p1", "-d", scratch, "-i", os.path.join(d, "patch.diff")])
            row["applies"] = p.returncode == 0
            if not row["applies"]:
                row["error"] = (p.stdout + p.stderr)[-300:]
                rows.append(row)
                print(json.dumps(row))
                continue
            if not skip_tests:
                t = sh([PY, "-m", "pytest", "-q", "-p", "no:cacheprovider", "tests/", "--deselect",
                        "tests/test__package.py::test__last_modified_date", "-x"], cwd=scratch,
                       timeout=900)
                row["tests_pass"] = t.returncode == 0
            dm = sh([PY, os.path.join(d, "demo.py"), scratch], timeout=600)
            row["demo_fails_with_patch"] = dm.returncode != 0
            dm0 = sh([PY, os.path.join(d, "demo.py"), "/repo"], timeout=600)
            row["demo_passes_without"] = dm0.returncode == 0
            props = [prop]
            if all_props:
                props = sorted({c["property_id"] for c in json.load(
                    open(os.path.join(VERIF, "MANIFEST.json")))["checks"]})
            caught = {}
            for pr in props:
                t0 = time.time()
                env = dict(os.environ, VERIF_REPO=scratch)
                c = sh([PY, os.path.join(VERIF, "check.py"), pr, tier], env=env, timeout=7200)
                viol = [ln for ln in c.stdout.splitlines() if ln.startswith("VIOLATION")]
                oracle = [ln.strip() for ln in c.stdout.splitlines() if "oracle=" in ln][:2]
                caught[pr] = dict(exit=c.returncode, violation=bool(viol), oracle=oracle,
                                  wall_s=round(time.time() - t0, 1))
                if c.returncode == 2:
                    caught[pr]["harness"] = [ln for ln in c.stdout.splitlines()
                                             if "HARNESS" in ln][:2]
            row["checks"] = caught
            row["caught_by_own_check"] = caught[prop]["exit"] == 1 and caught[prop]["violation"]
        finally:
            shutil.rmtree(scratch, ignore_errors=True)
            # evidence files were rewritten by runs against the copy: they are not evidence
        rows.append(row)
        print(json.dumps(row))
        sys.stdout.flush()
    out = os.path.join(VERIF, "out", f"seeded_results_{tier}_{len(rows)}.json")
    os.makedirs(os.path.dirname(out), exist_ok=True)
    json.dump(rows, open(out, "w"), indent=1)
    n = sum(1 for r in rows if r.get("caught_by_own_check"))
    print(f"caught by own check: {n}/{len(rows)}")


if __name__ == "__main__":
    main(sys.argv[1:])
