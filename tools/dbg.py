import sys, os, json, time
sys.path.insert(0,'/verif'); sys.path.insert(0,os.environ.get('VERIF_REPO','/repo'))
from acl_sim import core, driver
prop = sys.argv[1]
tier = os.environ.get('TIER','quick')
cls = driver.registry()[prop]
for a in sys.argv[2:]:
    if '-' in a:
        lo,hi = map(int,a.split('-'))
        from collections import Counter
        c=Counter(); slow=[]
        for idx in range(lo,hi):
            t=time.time(); r = core.generate_run(cls, prop, tier, int(os.environ.get('VERIF_SEED','0')), idx); dt=time.time()-t
            f=r['failure']
            c[(f['prop'],f['oracle'],f['op']) if f else 'ok']+=1
            if dt>1.5: slow.append((idx,round(dt,1)))
        for k,v in c.most_common(): print(v,k)
        print('slow',slow)
        continue
    idx=int(a)
    r = core.generate_run(cls, prop, tier, int(os.environ.get('VERIF_SEED','0')), idx)
    print(json.dumps(r['cfg']))
    for i,o in enumerate(r['ops']): print(i, json.dumps(o)[:400])
    f=r['failure']
    if f: print(f['prop'],f['oracle'],f['op'],f['disc']); print(f['msg'])
