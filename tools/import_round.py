#!/usr/bin/env python3
"""Import sub-agent output (/tmp/wt<r>_<PROP>/out/m<i>/) as /verif/seeded/<PROP>-r<r>m<i>/."""
import json, os, shutil, sys
rnd = sys.argv[1]
VERIF = os.path.dirname(os.path.dirname(os.path.abspath(__file__)))
for prop in sys.argv[2:]:
    for i in (1, 2, 3):
        src = f"/tmp/wt{rnd}_{prop}/out/m{i}"
        if not os.path.isdir(src):
            continue
        dst = os.path.join(VERIF, "seeded", f"{prop}-r{rnd}m{i}")
        if os.path.exists(dst):
            print("exists", dst); continue
        os.makedirs(dst)
        for f in ("patch.diff", "demo.py", "meta.json"):
            shutil.copy(os.path.join(src, f), dst)
        meta = json.load(open(os.path.join(dst, "meta.json")))
        meta["property"] = prop
        meta["round"] = int(rnd)
        json.dump(meta, open(os.path.join(dst, "meta.json"), "w"), indent=1)
        print("imported", dst)
