#!/usr/bin/env python3
"""False-alarm resistance: run every registered check against behaviour-preserving refactorings.

For every /verif/refactorings/<id>/patch.diff: copy /repo to /dev/shm, apply the patch, run the
repository's test suite and then all registered quick checks with VERIF_REPO pointing at the copy.
Every check must exit 0 (KNOWN-FINDING lines allowed).  An alarm here is either a refactoring that
is not behaviour-preserving after all (then it is a seeded change) or a check that depends on
implementation details (then the check is wrong).  Development aid; /repo is never touched.
"""
import glob
import json
import os
import shutil
import subprocess
import sys
import time

VERIF = os.path.dirname(os.path.dirname(os.path.abspath(__file__)))
PY = "/venv/bin/python"


def sh(cmd, **kw):
    return subprocess.run(cmd, capture_output=True, text=True, **kw)


def main(argv):
    dirs = [os.path.abspath(a) for a in argv] or sorted(
        glob.glob(os.path.join(VERIF, "refactorings", "*")))
    props = sorted(c["property_id"] for c in json.load(
        open(os.path.join(VERIF, "MANIFEST.json")))["checks"])
    rows = []
    for d in dirs:
        scratch = f"/dev/shm/refac_{os.path.basename(d)}_{os.getpid()}"
        shutil.rmtree(scratch, ignore_errors=True)
        shutil.copytree("/repo", scratch, ignore=shutil.ignore_patterns(".git", "__pycache__"))
        row = dict(id=os.path.basename(d))
        try:
            p = sh(["git", "apply", "--unsafe-paths", f"--directory={scratch}",
                    os.path.join(d, "patch.diff")], cwd="/")
            if p.returncode:
                p = sh(["patch", "-p1", "-d", scratch, "-i", os.path.join(d, "patch.diff")])
            row["applies"] = p.returncode == 0
            if not row["applies"]:
                row["error"] = (p.stdout + p.stderr)[-300:]
                rows.append(row)
                print(json.dumps(row))
                continue
            t = sh([PY, "-m", "pytest", "-q", "-p", "no:cacheprovider", "tests/", "--deselect",
                    "tests/test__package.py::test__last_modified_date", "-x"], cwd=scratch,
                   timeout=900)
            row["tests_pass"] = t.returncode == 0
            res = {}
            for pr in props:
                t0 = time.time()
                c = sh([PY, os.path.join(VERIF, "check.py"), pr, "quick"],
                       env=dict(os.environ, VERIF_REPO=scratch), timeout=7200)
                res[pr] = dict(exit=c.returncode, wall_s=round(time.time() - t0, 1),
                               lines=[ln.strip()[:300] for ln in c.stdout.splitlines()
                                      if "oracle=" in ln or "HARNESS" in ln][:3])
            row["checks"] = res
            row["alarms"] = [p_ for p_, r in res.items() if r["exit"] != 0]
        finally:
            shutil.rmtree(scratch, ignore_errors=True)
        rows.append(row)
        print(json.dumps(row))
        sys.stdout.flush()
    os.makedirs(os.path.join(VERIF, "out"), exist_ok=True)
    json.dump(rows, open(os.path.join(VERIF, "out", "refactoring_results.json"), "w"), indent=1)
    print("refactorings without any alarm:",
          sum(1 for r in rows if r.get("applies") and not r.get("alarms")), "/", len(rows))


if __name__ == "__main__":
    main(sys.argv[1:])
